"""Rendering of SchemaModel.tla pieces to SDL text, the ways of supplying it, the
implementations a model needs (custom scalars, directive classes), the introspection
query and the projection of its answer onto the abstract image."""
import os
import shutil
import tempfile

import base
from base import main_loop, unique_schema_name
import render
import gqlstub


def lit_sdl(l):
    t, v = l["t"], l.get("v")
    if t == "int":
        return str(v)
    if t == "float":
        return str(v)
    if t == "str":
        return render.gql_string(v)
    if t == "bool":
        return "true" if v else "false"
    if t == "enum":
        return v
    if t == "null":
        return "null"
    if t == "list":
        return "[" + ", ".join(lit_sdl(x) for x in v) + "]"
    if t == "obj":
        return "{" + ", ".join("%s: %s" % (k, lit_sdl(x)) for k, x in v) + "}"
    raise ValueError(l)


def arg_sdl(a):
    s = "%s: %s" % (a["name"], render.typeref(a["type"]))
    if a["hasDefault"]:
        s += " = " + lit_sdl(a["default"])
    return s


def dep_sdl(reason):
    """reason markers of SchemaModel.tla: "" = none given, "<empty>" = the empty string, "<null>" = an explicit null"""
    if reason == "":
        return " @deprecated"
    if reason == "<empty>":
        return ' @deprecated(reason: "")'
    if reason == "<null>":
        return " @deprecated(reason: null)"
    return " @deprecated(reason: %s)" % render.gql_string(reason)


def expected_reason(reason, got):
    """-> None when the introspected deprecationReason `got` is what the SDL declares, else a description"""
    if reason == "":
        return None if isinstance(got, str) and got else "a default reason text"
    want = "" if reason == "<empty>" else (None if reason == "<null>" else reason)
    return None if (got == want and type(got) is type(want)) else repr(want)


def field_sdl(f):
    s = f["name"]
    if f["args"]:
        s += "(" + ", ".join(arg_sdl(a) for a in f["args"]) + ")"
    s += ": " + render.typeref(f["type"])
    if f["dep"]:
        s += dep_sdl(f["reason"])
    if f["hidden"]:
        s += " @nonIntrospectable"
    return s


def piece_sdl(p):
    k = p["kind"]
    ext = "extend " if p["ext"] else ""
    if k == "RAW":
        return p["name"]
    if k == "SCALAR":
        return "%sscalar %s" % (ext, p["name"])
    if k == "ENUM":
        vals = []
        for v in p["values"]:
            s = v["name"]
            if v["dep"]:
                s += dep_sdl(v["reason"])
            vals.append(s)
        return "%senum %s {\n  %s\n}" % (ext, p["name"], "\n  ".join(vals)) if vals or not p["ext"] else "%senum %s" % (ext, p["name"])
    if k == "INPUT":
        return "%sinput %s {\n  %s\n}" % (ext, p["name"], "\n  ".join(arg_sdl(a) for a in p["inputs"]))
    if k in ("OBJECT", "INTERFACE"):
        head = "%s%s %s" % (ext, "type" if k == "OBJECT" else "interface", p["name"])
        if p["ifaces"]:
            head += " implements " + " & ".join(p["ifaces"])
        for d in p.get("tdirs") or []:
            head += " @%s" % d
        if not p["fields"]:
            return head
        return head + " {\n  " + "\n  ".join(field_sdl(f) for f in p["fields"]) + "\n}"
    if k == "UNION":
        return "%sunion %s = %s" % (ext, p["name"], " | ".join(p["members"]))
    if k == "DIRECTIVE":
        s = "directive @%s" % p["name"]
        if p["args"]:
            s += "(" + ", ".join(arg_sdl(a) for a in p["args"]) + ")"
        return s + " on " + " | ".join(p["locs"])
    if k == "SCHEMA":
        head = "%sschema" % ext + "".join(" @%s" % d for d in (p.get("tdirs") or []))
        if not p["roots"]:
            return head
        return head + " {\n  %s\n}" % "\n  ".join("%s: %s" % (o, t) for o, t in p["roots"])
    raise ValueError(p)


def register_impls(pieces, sn):
    t = base.tartiflette()
    seen = set()
    for p in pieces:
        if (p["kind"], p["name"]) in seen:
            continue
        seen.add((p["kind"], p["name"]))
        if p["kind"] == "SCALAR" and not p["ext"] and p.get("impl") == "ok":
            class Sc:
                def coerce_output(self, v):
                    return v

                def coerce_input(self, v):
                    return v

                def parse_literal(self, ast):
                    return getattr(ast, "value", None)
            t.Scalar(p["name"], schema_name=sn)(Sc())
        if p["kind"] == "DIRECTIVE" and not p["ext"]:
            if p.get("impl") == "none":
                continue          # declared in the SDL only (metadata directives need no implementation)
            if p.get("impl") == "wrapped-sync-hook":
                import functools

                def plain(fn):
                    @functools.wraps(fn)
                    def wrapper(*a, **k):
                        return None
                    return wrapper

                class D:
                    @plain
                    async def on_field_execution(self, directive_args, next_resolver, parent, args, ctx, info):
                        return await next_resolver(parent, args, ctx, info)
            elif p.get("impl") == "sync-hook":
                class D:
                    def on_field_execution(self, directive_args, next_resolver, parent, args, ctx, info):
                        return None
            else:
                class D:
                    async def on_field_execution(self, directive_args, next_resolver, parent, args, ctx, info):
                        return await next_resolver(parent, args, ctx, info)
            t.Directive(p["name"], schema_name=sn)(D)


ROUTES = ["string", "file", "files", "directory", "files-no-newline"]


def supply(pieces, route, workdir):
    """-> the `sdl` argument for create_engine"""
    texts = [piece_sdl(p) for p in pieces]
    if route == "string":
        return "\n\n".join(texts) + "\n"
    if route == "file":
        path = os.path.join(workdir, "schema.sdl")
        with open(path, "w") as f:
            f.write("\n\n".join(texts) + "\n")
        return path
    if route == "files-no-newline":
        # files whose last line has no newline; one ends in a comment, one in a name token
        paths = []
        for k in range(3):
            part = texts[k::3]
            path = os.path.join(workdir, "nn%d.graphql" % k)
            with open(path, "w") as f:
                f.write("\n\n".join(part) + ("\n# end of part %d" % k if k == 0 else ""))
            paths.append(path)
        return paths
    if route == "files":
        paths = []
        for k in range(3):
            part = texts[k::3]
            path = os.path.join(workdir, "part%d.graphql" % k)
            with open(path, "w") as f:
                f.write("\n\n".join(part) + "\n")
            paths.append(path)
        return paths
    d = os.path.join(workdir, "sdl")
    os.makedirs(os.path.join(d, "sub"), exist_ok=True)
    for k in range(4):
        part = texts[k::4]
        name = ["a.sdl", "b.graphql", os.path.join("sub", "c.sdl"), os.path.join("sub", "d.graphql")][k]
        with open(os.path.join(d, name), "w") as f:
            f.write("\n\n".join(part) + "\n")
    return d


def cook_model(pieces, route):
    """-> (engine or None, exception or None)"""
    t = base.tartiflette()
    sn = unique_schema_name("sm")
    work = tempfile.mkdtemp(prefix="verif_sdl_")
    try:
        register_impls(pieces, sn)
        sdl = supply(pieces, route, work)
        try:
            eng = main_loop().run(t.create_engine(sdl, schema_name=sn))
            return eng, None
        except BaseException as e:
            return None, e
    finally:
        shutil.rmtree(work, ignore_errors=True)
        try:
            from tartiflette.schema.registry import SchemaRegistry
            SchemaRegistry._schemas.pop(sn, None)
        except Exception:
            pass


TR = "fragment TR on __Type { kind name ofType { kind name ofType { kind name ofType { kind name ofType { kind name ofType { kind name ofType { kind name } } } } } } }"
INTROSPECTION = """
query I {
  __schema {
    queryType { name } mutationType { name } subscriptionType { name }
    types {
      kind name
      fields(includeDeprecated: true) { name isDeprecated deprecationReason args { name defaultValue type { ...TR } } type { ...TR } }
      fieldsDefault: fields { name }
      fieldsNoDep: fields(includeDeprecated: false) { name }
      interfaces { name } possibleTypes { name }
      enumValues(includeDeprecated: true) { name isDeprecated deprecationReason }
      enumDefault: enumValues { name }
      inputFields { name defaultValue type { ...TR } }
    }
    directives { name locations args { name defaultValue type { ...TR } } }
  }
  __typename
}
""" + TR

TYPE_Q = "query T($n: String!) { __type(name: $n) { kind name fields(includeDeprecated: true) { name } interfaces { name } possibleTypes { name } enumValues(includeDeprecated: true) { name } inputFields { name } } }"


def typeref_of(t):
    out = []
    while t is not None:
        if t["kind"] == "NON_NULL":
            out.append("NN")
        elif t["kind"] == "LIST":
            out.append("L")
        else:
            out.append(t["name"])
            return out
        t = t.get("ofType")
    return out + ["?"]


def lit_of_ast(n):
    k = n["kind"]
    if k == "IntValue":
        return {"t": "int", "v": int(n["value"])}
    if k == "FloatValue":
        return {"t": "float", "v": n["value"]}
    if k == "StringValue":
        return {"t": "str", "v": n["value"]}
    if k == "BooleanValue":
        return {"t": "bool", "v": n["value"]}
    if k == "EnumValue":
        return {"t": "enum", "v": n["value"]}
    if k == "NullValue":
        return {"t": "null", "v": 0}
    if k == "ListValue":
        return {"t": "list", "v": [lit_of_ast(x) for x in n["values"]]}
    if k == "ObjectValue":
        return {"t": "obj", "v": [[f["name"]["value"], lit_of_ast(f["value"])] for f in n["fields"]]}
    raise ValueError(n)


def parse_default(s):
    """GraphQL-formatted default value string -> Lit (or a marker when it does not parse)"""
    try:
        p = gqlstub.Parser(s)
        v = p.value(const=True)
        if not p.at("EOF"):
            return {"t": "unparsable", "v": s}
        return lit_of_ast(v)
    except Exception:
        return {"t": "unparsable", "v": s}


def arg_image(a):
    dv = a.get("defaultValue")
    return {"name": a["name"], "type": typeref_of(a["type"]), "hasDefault": dv is not None, "default": parse_default(dv) if dv is not None else {"t": "null", "v": 0}}


def norm_lit(l):
    if l["t"] == "list":
        return {"t": "list", "v": [norm_lit(x) for x in l["v"]]}
    if l["t"] == "obj":
        return {"t": "obj", "v": [[k, norm_lit(x)] for k, x in l["v"]]}
    if l["t"] == "bool":
        return {"t": "bool", "v": bool(l["v"])}
    return {"t": l["t"], "v": l["v"]}


def canon_args(args):
    return sorted(({"name": a["name"], "type": list(a["type"]), "hasDefault": bool(a["hasDefault"]),
                    "default": norm_lit(a["default"]) if a["hasDefault"] else {"t": "null", "v": 0}} for a in args), key=lambda a: a["name"])
