"""Table-driven world for execution cases: engines over an execution schema whose
every custom resolver looks its return value up in the current case's table
(response path -> raw value predicted by the specification), records the call
(path, parent identity, arguments, context identity) and optionally waits on a
harness-owned gate so the schedule can be decided by the caller."""
import zlib
import base
from base import Loop, main_loop, unique_schema_name, snapshot_and_scribble
import render


class LibError(Exception):
    pass


def _lib_error_cls():
    t = base.tartiflette()
    from tartiflette.types.exceptions.tartiflette import TartifletteError

    class VerifLibError(TartifletteError):
        def __init__(self, message, ext):
            super().__init__(message)
            self.extensions = ext
    return VerifLibError


class CustomCoercibleError(Exception):
    """the documented way of writing one's own error: any exception with a coerce_value method (no path / locations attributes)"""
    def __init__(self, message):
        super().__init__(message)
        self.message = message

    def coerce_value(self, *_args, path=None, locations=None, **_kwargs):
        locs = []
        for l in locations or []:
            locs.append(l.collect_value() if hasattr(l, "collect_value") else l)
        return {"message": self.message, "path": path, "locations": locs, "extensions": {"custom": True}}


class RaisingMarker:
    """attribute-based object whose attribute `d` is a property raising KeyError"""
    def __init__(self, **kw):
        self.__dict__.update(kw)

    @property
    def d(self):
        raise KeyError("d")

    def __repr__(self):
        return "<RaisingMarker %s>" % self.__dict__.get("_id")


class Marker:
    """object-with-attributes flavour of an object value"""
    def __init__(self, **kw):
        self.__dict__.update(kw)

    def __repr__(self):
        return "<Marker %s>" % self.__dict__.get("_id")


_CLASS_CACHE = {}


def _class_named(name):
    c = _CLASS_CACHE.get(name)
    if c is None:
        c = type(name, (), {"__repr__": lambda s: "<%s %s>" % (type(s).__name__, s.__dict__.get("_id"))})
        _CLASS_CACHE[name] = c
    return c


class Unserialisable:
    def __str__(self):
        raise ValueError("no str")
    __repr__ = object.__repr__


class World:
    def __init__(self, types, roots):
        self.types = types
        self.roots = roots
        self.sdl = render.sdl_exec(types, roots)
        self.engines = {}
        self.case = None        # current case state (table, calls, gates ...)
        self.hook_calls = 0     # calls of the counting directive's hooks / of the counting default type resolver
        self.tr_calls = 0
        self.lib_error = None

    # ---- raw value -> python -----------------------------------------------------
    def materialise(self, raw, path):
        r = raw["r"]
        if r == "obj":
            tn = raw["tn"]
            way = self.types.get(tn, {}).get("way") or "key"
            if way == "key":
                return {"_typename": tn, "_id": raw["id"], "d": raw["d"]}
            if raw["d"] == "<raises>":
                return RaisingMarker(_typename=tn, _id=raw["id"])
            if way == "attr":
                return Marker(_typename=tn, _id=raw["id"], d=raw["d"])
            o = _class_named(tn)()
            o._id = raw["id"]
            o.d = raw["d"]
            return o
        if r == "leaf":
            return render.value_py(raw["v"])
        if r == "list":
            return [self.materialise(x, path) for x in raw["v"]]
        if r == "null":
            return None
        if r == "exc":
            return ValueError("exc-as-value@" + "/".join(path))
        if r == "bad":
            return Unserialisable()
        if r == "nonlist":
            return 5
        raise ValueError("cannot materialise %r" % (raw,))

    @staticmethod
    def ident(parent):
        if parent is None:
            return ""
        if isinstance(parent, dict):
            return parent.get("_id", "?{}")
        return getattr(parent, "_id", "?%r" % (parent,))

    # ---- engine construction ------------------------------------------------------
    def engine(self, cfg=None):
        """cfg: dict(list_conc, parent_conc, args) -> cooked engine (cached)"""
        cfg = cfg or {}
        key = tuple(sorted((k, v if isinstance(v, (str, int, bool, tuple, type(None))) else id(v)) for k, v in cfg.items()))
        if key in self.engines:
            return self.engines[key]
        t = base.tartiflette()
        sn = unique_schema_name("w")
        world = self
        if self.lib_error is None:
            self.lib_error = _lib_error_cls()
        lib_error = self.lib_error

        trs = set(cfg.get("trs") or ())

        def tn_of(value):
            if isinstance(value, dict):
                return value.get("_typename")
            return getattr(value, "_typename", None) or type(value).__name__

        def field_type_resolver(result, ctx, info, abstract_type):
            return tn_of(result)

        def type_type_resolver(result, ctx, info, abstract_type):
            return world.types[abstract_type.name]["possibleSeq"][-1]

        def engine_type_resolver(result, ctx, info, abstract_type):
            return world.types[abstract_type.name]["possibleSeq"][0]

        if "directive @boom" in (render.sdl_exec(self.types, self.roots, hooks=True) if cfg.get("hooks") else self.sdl):
            @t.Directive("boom", schema_name=sn)
            class Boom:
                async def on_argument_execution(self, directive_args, next_directive, parent_node, argument_definition_node, argument_node, value, ctx):
                    v = await next_directive(parent_node, argument_definition_node, argument_node, value, ctx)
                    if v == 13 and not isinstance(v, bool):
                        raise ValueError("boom-argument")        # a plain Python exception, not a library error
                    return v
        if "directive @boomi" in (render.sdl_exec(self.types, self.roots, hooks=True) if cfg.get("hooks") else self.sdl):
            @t.Directive("boomi", schema_name=sn)
            class BoomI:
                async def on_post_input_coercion(self, directive_args, next_directive, parent_node, value, ctx):
                    v = await next_directive(parent_node, value, ctx)
                    if v == 13 and not isinstance(v, bool):
                        raise ValueError("boom-input-field")
                    return v
        if "Cs" in self.types:
            @t.Scalar("Cs", schema_name=sn)
            class Cs:
                """output: the blank string becomes null, any other text is prefixed (GQL!OutC)"""
                def coerce_output(self, v):
                    if not isinstance(v, str):
                        raise TypeError("Cs cannot represent %r" % (v,))
                    return None if v == "" else "cs:" + v

                def coerce_input(self, v):
                    world.scalar_input_calls = getattr(world, "scalar_input_calls", 0) + 1       # user code
                    return v

                def parse_literal(self, ast):
                    world.scalar_input_calls = getattr(world, "scalar_input_calls", 0) + 1
                    return getattr(ast, "value", None)
        if "type" in trs:
            t.TypeResolver("P", schema_name=sn)(type_type_resolver)
        if cfg.get("hooks"):
            @t.Directive("hk", schema_name=sn)
            class Hk:
                async def on_post_input_coercion(self, directive_args, next_directive, parent_node, value, ctx):
                    world.hook_calls += 1
                    return await next_directive(parent_node, value, ctx)

                async def on_argument_execution(self, directive_args, next_directive, parent_node, argument_definition_node, argument_node, value, ctx):
                    world.hook_calls += 1
                    return await next_directive(parent_node, argument_definition_node, argument_node, value, ctx)

                async def on_field_execution(self, directive_args, next_resolver, parent, args, ctx, info):
                    world.hook_calls += 1
                    return await next_resolver(parent, args, ctx, info)

                async def on_pre_output_coercion(self, directive_args, next_directive, value, ctx, info):
                    world.hook_calls += 1
                    return await next_directive(value, ctx, info)

            from tartiflette.resolver.default import default_type_resolver

            def counting_type_resolver(result, ctx, info, abstract_type):
                world.tr_calls += 1
                return default_type_resolver(result, ctx, info, abstract_type)

        def mk(tn, fn):
            fd_type = self.types[tn]["fields"][fn]["type"]
            kw = {}
            if "field" in trs and "%s.%s" % (tn, fn) in ("Query.p", "Query.lp", "Query.np", "Query.lnp"):
                kw["type_resolver"] = field_type_resolver
            if "field_parent_conc" in cfg:
                kw["parent_concurrently"] = cfg["field_parent_conc"]
            if "seq_fields" in cfg:
                kw["parent_concurrently"] = fn not in cfg["seq_fields"]
            if "field_list_conc" in cfg:
                kw["list_concurrently"] = cfg["field_list_conc"]

            @t.Resolver("%s.%s" % (tn, fn), schema_name=sn, **kw)
            async def resolver(parent, args, ctx, info):
                cs = ctx.get("__cs") if isinstance(ctx, dict) and "__cs" in ctx else world.case
                path = tuple(render.path_spec(info.path.as_list()))
                cs.calls.append((path, world.ident(parent), snapshot_and_scribble(args), ctx))
                if cs.adversary is not None:
                    return cs.adversary.value(fd_type, list(path))
                raw = cs.table.get(path)
                if cs.gated:
                    fut = cs.loop.future()
                    cs.gates[path] = fut
                    cs.started.append(path)
                    await fut
                if raw is None:
                    cs.unexpected.append(path)
                    return None
                r = raw["r"]
                if r == "raise":
                    # user exceptions come in all shapes: with a message, without any argument, with a non-string argument
                    shape = zlib.crc32("/".join(path).encode()) % 4
                    if shape == 1:
                        raise NotImplementedError
                    if shape == 2:
                        raise KeyError(("boom", 7))
                    if shape == 3:
                        raise CustomCoercibleError("custom@" + "/".join(path))
                    raise RuntimeError("boom@" + "/".join(path))
                if r == "raiseLib":
                    raise lib_error("lib@" + "/".join(path), {"code": "/".join(path)})
                return world.materialise(raw, path)
            return resolver

        for tn, td in self.types.items():
            if td["kind"] != "OBJECT":
                continue
            for fn, fd in td["fields"].items():
                if fd["res"] == "R":
                    mk(tn, fn)
        sub_root = self.roots.get("subscription")
        if sub_root and sub_root in self.types:
            for fn in self.types[sub_root]["fields"]:
                def mksub(fn):
                    @t.Subscription("%s.%s" % (sub_root, fn), schema_name=sn)
                    async def source(parent, args, ctx, info):
                        cs = ctx.get("__cs") if isinstance(ctx, dict) and "__cs" in ctx else world.case
                        async for x in cs.source(fn, parent, args, ctx, info):
                            yield x
                mksub(fn)
        kw = {}
        if "list_conc" in cfg:
            kw["coerce_list_concurrently"] = cfg["list_conc"]
        if "parent_conc" in cfg:
            kw["coerce_parent_concurrently"] = cfg["parent_conc"]
        if cfg.get("args") == "sync":
            from tartiflette.resolver.default import sync_arguments_coercer
            kw["custom_default_arguments_coercer"] = sync_arguments_coercer
        if cfg.get("cdr"):
            # a custom default resolver doing what the built-in one does (key of a mapping, else attribute)
            async def custom_default_resolver(parent, args, ctx, info):
                name = info.field_name
                if isinstance(parent, dict):
                    return parent.get(name)
                return getattr(parent, name, None)
            kw["custom_default_resolver"] = custom_default_resolver
        if "cache" in cfg:
            kw["query_cache_decorator"] = cfg["cache"]
        if "coercer" in cfg:
            kw["error_coercer"] = cfg["coercer"]
        if "engine" in trs:
            kw["custom_default_type_resolver"] = engine_type_resolver
        if cfg.get("hooks"):
            kw["custom_default_type_resolver"] = counting_type_resolver
        sdl = render.sdl_exec(self.types, self.roots, hooks=True) if cfg.get("hooks") else self.sdl
        eng = main_loop().run(t.create_engine(sdl, schema_name=sn, **kw))
        self.engines[key] = eng
        return eng


class CaseState:
    def __init__(self, table, gated=False, loop=None):
        self.table = table
        self.calls = []
        self.unexpected = []
        self.gated = gated
        self.loop = loop
        self.gates = {}
        self.started = []
        self.source = None
        self.adversary = None


def table_of(calls):
    return {tuple(c["path"]): c["ret"] for c in calls}


def args_py(pairs):
    return {k: render.value_py(v) for k, v in pairs}


def variables_py(given):
    return {k: render.value_py(v) for k, v in given}
