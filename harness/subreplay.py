"""R2 driver for subscription cases (MC_sub): drives engine.subscribe() pull by pull,
making source events available as the spec's action sequence prescribes."""
import render
from base import main_loop
from execworld import CaseState, table_of, variables_py
import execreplay


class SubRun:
    counter = 0
    counter_c = 0
    counter_r = 0

    def __init__(self, world, case):
        self.world = world
        self.case = case
        self.loop = main_loop()
        nodes = case["nodes"]
        reverse = False
        self.invalidation = ""
        if case["refused"] == "validation":
            # the harness makes the document invalid, in turn:
            #   an unknown root field; the same root field a second time under another alias (two root response keys);
            #   __typename beside the root field; an invalid subscription operation placed BEFORE the subscribed one
            SubRun.counter += 1
            how = SubRun.counter % 4
            root = next(n for n in nodes if n["k"] == "F" and n["parent"] == case["op"])
            if how == 0:
                self.invalidation = "unknown-root-field"
                nodes = list(nodes) + [dict(root, name="nope", alias="", args=[], dirs=[], parent=case["op"])]
            elif how == 1:
                self.invalidation = "same-root-field-under-a-second-alias"
                nodes = list(nodes) + [dict(root, alias="again", dirs=[], parent=case["op"])]
            elif how == 2:
                self.invalidation = "typename-beside-the-root-field"
                nodes = list(nodes) + [dict(root, name="__typename", alias="", args=[], dirs=[], parent=case["op"])]
            else:
                self.invalidation = "invalid-subscription-operation-before-the-subscribed-one"
                nodes = [dict(n) for n in nodes]
                if not nodes[case["op"] - 1]["name"]:
                    nodes[case["op"] - 1]["name"] = "Main"
                k = len(nodes)
                nodes += [dict(nodes[case["op"] - 1], name="Other", vdefs=[], dirs=[]),
                          dict(root, alias="x1", args=[], dirs=[], parent=k + 1), dict(root, alias="x2", args=[], dirs=[], parent=k + 1)]
                nodes[k + 1]["args"] = []
                case = dict(case, nodes=nodes)
                self.case = case
                reverse = True
        # (every other document: its fragments are named like its operations - two separate name spaces)
        SubRun.counter_r += 1
        self.doc = render.DocText(nodes, reverse_defs=reverse, rename_frags=("op" if SubRun.counter_r % 2 else False))
        self.events = case["events"]
        self.tables = []
        for k, out in enumerate(case["out"]):
            self.tables.append(table_of(out["calls"]) if out.get("cls") == "exec" else {})
        # the tables of events not delivered yet are still needed: every event's table comes from `out` (terminal => all delivered)
        self.falsy = [0, "", False, {}, []]
        self.avail = 0
        self.end = False
        self.wake = None
        self.source_started = 0
        self.cur = None
        self.cs_all = []
        world_self = self

        class SubState(CaseState):
            pass
        self.state = SubState({})
        self.state.ctx = {"__cs": self.state}
        self.state.source = self.source

    async def source(self, fn, parent, args, ctx, info):
        self.source_started += 1
        self.source_args = dict(args)
        k = 0
        while True:
            while k >= self.avail and not self.end:
                self.wake = self.loop.future()
                await self.wake
            if k >= self.avail and self.end:
                return
            k += 1
            # resolver data for this event
            self.state.table = self.tables[k - 1] if k - 1 < len(self.tables) else {}
            self.state.calls = []
            self.cs_all.append(self.state.calls)
            # every second event is a FALSY payload (it is still the event, and the root value of its execution)
            yield ({"_id": "E%d" % k, "_typename": "Subscription"} if k % 2 else self.falsy[(k // 2) % len(self.falsy)])

    def _wake(self):
        if self.wake is not None and not self.wake.done():
            self.wake.set_result(None)

    def run(self):
        case = self.case
        out = []
        eng = self.world.engine({})
        self.world.case = self.state
        agen = eng.subscribe(self.doc.text, operation_name=execreplay.op_name(case), context=self.state.ctx,
                             variables=variables_py(case["given"]))
        got = []
        finished = False
        pull = None
        per_event_calls = []
        # a companion subscription on the SAME document and field: started before, ends while the modelled one is in
        # progress (after its first action); its own stream delivers exactly one response and then ends
        companion = None
        comp_out = []
        if not case["refused"] and SubRun.counter_c % 2 == 0:
            cstate = CaseState({})
            cstate.ctx = {"__cs": cstate}

            async def csource(fn, parent, args, ctx, info):
                yield {"_id": "CE1", "_typename": "Subscription"}
            cstate.source = csource
            companion = eng.subscribe(self.doc.text, operation_name=execreplay.op_name(case), context=cstate.ctx,
                                      variables=variables_py(case["given"]))
            try:
                comp_out.append(self.loop.run(companion.__anext__()))
            except BaseException as e:
                comp_out.append({"__raised__": repr(e)})
        SubRun.counter_c += 1

        def settle():
            nonlocal pull, finished
            self.loop.idle()
            if pull is not None and pull.done():
                try:
                    got.append((pull.result(), list(self.state.calls)))
                except StopAsyncIteration:
                    finished = True
                except BaseException as e:
                    got.append(({"__raised__": repr(e)}, []))
                pull = None

        produced = pulled = 0
        for ai, a in enumerate(case["actions"]):
            if companion is not None and ai == 1:
                # the companion's source is exhausted: its stream ends now
                try:
                    self.loop.run(companion.__anext__())
                    out.append("companion subscription delivered a second response for its single event")
                except StopAsyncIteration:
                    pass
                except BaseException as e:
                    out.append("companion subscription did not end normally: %r" % (e,))
                companion = None
            if a == "produce":
                self.avail += 1
                produced += 1
                self._wake()
            elif a == "end":
                self.end = True
                self._wake()
            elif a == "pull":
                if pull is not None:
                    out.append("spec issues a pull while one is outstanding in the implementation")
                    break
                if finished:
                    out.append("stream finished earlier than the spec says")
                    break
                pull = self.loop.task(agen.__anext__())
                pulled += 1
            settle()
            exp_delivered = min(pulled, 1) if case["refused"] else min(pulled, produced)
            if len(got) != exp_delivered:
                out.append("after %s: %d responses delivered, expected %d" % (a, len(got), exp_delivered))
                break
        if not out and not finished:
            out.append("stream did not finish when the source ended")
        if pull is not None and not pull.done():
            pull.cancel()
            self.loop.idle()
        try:
            self.loop.run(agen.aclose())
        except BaseException:
            pass
        if companion is not None:
            try:
                self.loop.run(companion.aclose())
            except BaseException:
                pass
        if comp_out and (not isinstance(comp_out[0], dict) or "__raised__" in comp_out[0]):
            out.append("companion subscription's first response: %r" % (comp_out[0],))
        self.world.case = None
        if out:
            return out
        if len(got) != len(case["out"]):
            return ["%d responses, expected %d" % (len(got), len(case["out"]))]
        for k, ((resp, calls), exp) in enumerate(zip(got, case["out"])):
            if exp["cls"] != "exec":
                if not isinstance(resp, dict) or resp.get("data") is not None or not resp.get("errors"):
                    out.append("refused request (%s) answered %r" % (exp["cls"], resp))
                if set(resp.keys()) - {"data", "errors"}:
                    out.append("unexpected keys %r" % (list(resp.keys()),))
                continue
            c = {"data": exp["data"], "errs": exp["errs"], "nulls": exp["nulls"], "calls": exp["calls"],
                 "overlay": case["events"][k]}
            cs = CaseState(table_of(exp["calls"]))
            cs.calls = calls
            cs.ctx = self.state.ctx
            cs.root_id = "E%d" % (k + 1) if (k + 1) % 2 else self.world.ident(self.falsy[((k + 1) // 2) % len(self.falsy)])
            mm = execreplay.compare_faults(c, resp, cs, self.doc)
            mm += [m for m in execreplay.compare_calls(c, cs, exact=True) if "did not happen" in m] if not exp["errs"] else []
            out.extend("event %d: %s" % (k + 1, m) for m in mm)
        # the source stream is started with the spec-coerced arguments of the root field (the same dictionary its resolver gets)
        if not case["refused"] and case["out"] and case["out"][0]["cls"] == "exec":
            root_calls = [c for c in case["out"][0]["calls"] if len(c["path"]) == 1]
            if root_calls:
                from execworld import args_py
                want = args_py(root_calls[0]["args"])
                if not render.strict_eq(dict(sorted(getattr(self, "source_args", {}).items())), dict(sorted(want.items()))):
                    out.append("source stream started with arguments %r, expected %r" % (getattr(self, "source_args", None), want))
        if case["refused"] and self.source_started:
            out.append("source stream was started although the request was refused")
        if not case["refused"] and self.source_started != 1:
            out.append("source stream started %d times" % self.source_started)
        return out
