"""Check plumbing: tiers, seeds, evidence files, violation / known-finding reporting."""
import hashlib
import json
import os
import sys
import time

VERIF = os.path.dirname(os.path.dirname(os.path.abspath(__file__)))
EVIDENCE_DIR = os.path.join(VERIF, "evidence")
REPLAY_DIR = os.path.join(VERIF, "replays")
KNOWN_FILE = os.path.join(VERIF, "known_findings.json")


def tier():
    return os.environ.get("VERIF_TIER", "quick")


def seed():
    try:
        return int(os.environ.get("VERIF_SEED", "0"))
    except ValueError:
        return 0


def load_known():
    try:
        with open(KNOWN_FILE) as f:
            return json.load(f)
    except FileNotFoundError:
        return {"findings": []}


class Report:
    """Collects what one check run covered and found; writes the evidence file and
    prints VIOLATION / KNOWN-FINDING lines.  A violation is recorded with a `sig`
    dictionary describing the failing shape; an open finding of known_findings.json
    whose `match` is a sub-dictionary of the sig absorbs it."""

    def __init__(self, pid, level="model_checking"):
        self.pid = pid
        self.level = level
        self.t0 = time.time()
        self.tier = tier()
        self.seed = seed()
        self.states = 0
        self.transitions = 0
        self.evaluations = 0
        self.traces = 0
        self.distinct = set()
        self.samples = []
        self.violations = []
        self.known_hits = {}
        self.configs = []
        self.assumptions = []
        self.extra = {}
        self.rule = ""
        self.exhaustive = True
        self.known = [f for f in load_known().get("findings", []) if f.get("property") == pid and f.get("status") == "open"]
        self.machinery_errors = []

    # -- coverage accounting
    def add_tlc(self, name, res, exhaustive=True):
        self.states += res.distinct or res.states
        self.transitions += res.states
        self.configs.append({"config": name, "states_generated": res.states, "distinct_states": res.distinct,
                             "depth": res.depth, "cases_printed": res.lines, "wall_s": round(res.wall, 1),
                             "exhaustive": exhaustive})
        if not exhaustive:
            self.exhaustive = False

    def sample(self, s, limit=6):
        if len(self.samples) < limit:
            self.samples.append(s)

    def nontrivial(self, key):
        self.distinct.add(key)

    # -- findings
    def violation(self, sig, detail):
        for k in self.known:
            m = k.get("match", {})
            if all(sig.get(a) == b for a, b in m.items()):
                self.known_hits.setdefault(k["id"], [k, 0])
                self.known_hits[k["id"]][1] += 1
                return False
        self.violations.append((sig, detail))
        return True

    def spec_violation(self, cfg, inv, text):
        """R1 failure: the specification itself violates one of its invariants"""
        self.violations.append(({"kind": "spec-invariant", "config": cfg, "invariant": inv}, {"tlc": text[-4000:]}))

    def write_replay(self, sig, detail):
        d = os.path.join(REPLAY_DIR, self.pid)
        os.makedirs(d, exist_ok=True)
        blob = json.dumps({"property": self.pid, "sig": sig, "detail": detail}, indent=1, default=repr, sort_keys=True)
        h = hashlib.sha1(blob.encode()).hexdigest()[:12]
        p = os.path.join(d, h + ".json")
        with open(p, "w") as f:
            f.write(blob)
        return p

    def finish(self):
        wall = time.time() - self.t0
        cov = {
            "states": int(self.states),
            "transitions": int(max(self.transitions, self.states)),
            "traces_validated_against_impl": int(self.traces),
            "evaluations": int(self.evaluations),
            "distinct_nontrivial": len(self.distinct),
            "rule": self.rule,
            "samples": self.samples or ["(none)"],
            "exhaustive": bool(self.exhaustive),
            "tlc_configs": self.configs,
            "known_findings_reproduced": {k: v[1] for k, v in self.known_hits.items()},
        }
        cov.update(self.extra)
        ev = {"property_id": self.pid, "tier": self.tier, "seed": self.seed, "level": self.level,
              "coverage": cov, "assumptions": self.assumptions, "wall_s": round(wall, 2),
              "violations": len(self.violations)}
        os.makedirs(EVIDENCE_DIR, exist_ok=True)
        with open(os.path.join(EVIDENCE_DIR, self.pid + ".json"), "w") as f:
            json.dump(ev, f, indent=1, default=repr)
        for kid, (k, n) in sorted(self.known_hits.items()):
            print("KNOWN-FINDING: property=%s %s [%s; reproduced %d times]" % (self.pid, k["what"], kid, n))
        shown = 0
        seen = set()
        for sig, detail in self.violations:
            key = json.dumps(sig, sort_keys=True, default=repr)
            if key in seen:
                continue
            seen.add(key)
            if shown < 25:
                p = self.write_replay(sig, detail)
                print("VIOLATION property=%s replay=%s" % (self.pid, p))
                print("   sig=%s" % key[:600])
                shown += 1
        print("%s: tier=%s states=%d cases=%d traces=%d distinct_nontrivial=%d violations=%d wall=%.1fs" % (
            self.pid, self.tier, self.states, self.evaluations, self.traces, len(self.distinct), len(self.violations), wall))
        sys.stdout.flush()
        return 1 if self.violations else 0
