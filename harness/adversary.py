"""Adversarial resolver return values (C03): a seeded draw from a universe of wrong
Python types, nested garbage, boundary numbers, exception instances, unknown runtime
types - mixed with well-typed values so that deep parts of the selection are reached."""
import random
import tokens
from execworld import Marker, _class_named


def _gen():
    yield 1


def garbage(rng, depth=0):
    k = rng.randrange(12)
    if k <= 4:
        tok = rng.choice(sorted(tokens.REPS))
        reps = tokens.REPS[tok]
        return reps[rng.randrange(len(reps))]
    if k == 5:
        return [garbage(rng, depth + 1) for _ in range(rng.randrange(4))] if depth < 3 else []
    if k == 6:
        return {rng.choice(["a", "s", "o", "_typename", "d", "i"]): garbage(rng, depth + 1) for _ in range(rng.randrange(3))} if depth < 3 else {}
    if k == 7:
        return tuple(garbage(rng, depth + 1) for _ in range(rng.randrange(3))) if depth < 3 else ()
    if k == 8:
        return Marker(_typename=rng.choice(["T", "A", "B", "C", "Nope", "E", "P", 5, None]), _id="g", d=garbage(rng, 3))
    if k == 9:
        return rng.choice([ValueError("v"), KeyError("k"), Exception(), RuntimeError("r")])
    if k == 10:
        return _gen()
    return rng.choice([None, object(), b"\xff", float("nan"), -0.0, 10**400, {1, 2}, frozenset(), range(3), lambda: 1])


class Adversary:
    def __init__(self, world, seed, p_good=0.6):
        self.world = world
        self.rng = random.Random(seed)
        self.p_good = p_good
        self.types = world.types

    def good(self, t, path, depth=0):
        """a well-typed value for type reference t"""
        rng = self.rng
        if t[0] == "NN":
            return self.good(t[1:], path, depth)
        if t[0] == "L":
            n = rng.randrange(3)
            return [self.value(t[1:], path + ["#%d" % i], depth + 1) for i in range(n)]
        n = t[0]
        td = self.types[n]
        k = td["kind"]
        if k == "SCALAR":
            return {"String": "txt", "ID": "id1", "Int": rng.choice([0, 7, -3]), "Boolean": rng.choice([True, False]),
                    "Float": rng.choice([0.5, 2.0])}.get(n, "x")
        if k == "ENUM":
            return rng.choice(td["values"])
        tn = n if k == "OBJECT" else rng.choice(td["possibleSeq"])
        raw = {"r": "obj", "tn": tn, "id": "/".join(path), "d": rng.choice(["dv", None, 5])}
        return self.world.materialise(raw, path)

    def value(self, t, path, depth=0):
        rng = self.rng
        if rng.random() < self.p_good:
            return self.good(t, path, depth)
        if rng.random() < 0.15:
            raise RuntimeError("adversary raises @" + "/".join(path))
        return garbage(rng)
