"""R3 driver for the scheduler: requests drawn by TLC in simulation mode (documents of
up to ~10 selection nodes with 1-2 failures) are executed by the real engine under a
schedule chosen HERE (seeded random), every release and the pending set it leaves are
logged, and the traces are validated by TLC against Sched.tla (Trace_sched)."""
import random

import genrun
import project
import render
import tlc
import tracecheck
from execworld import World
import execreplay

FLAGSETS = [{"seq": [], "lconc": True}, {"seq": [], "lconc": False}, {"seq": "ALL", "lconc": True}, {"seq": "ALL", "lconc": False},
            {"seq": ["o", "sn", "m2", "m3", "lnn", "p", "s"], "lconc": True}, {"seq": ["o", "sn", "m2", "m3", "lnn", "p", "s"], "lconc": False}]


def job(j):
    seed = j["seed"]
    rng = random.Random(seed)
    st = {"world": None, "cases": []}

    def on_line(rec):
        if rec["kind"] == "schema":
            if st["world"] is None:
                st["world"] = World(rec["types"], rec["roots"])
            return
        if len(st["cases"]) < j["max_cases"] and (not j.get("mutations_only") or rec["nodes"][rec["op"] - 1]["optype"] == "mutation"):
            st["cases"].append(rec)
        elif len(st["cases"]) >= j["max_cases"]:
            raise StopIteration
    res = tlc.run("MC_faults.tla", "MC_faults_sim.cfg", on_line=on_line, workers=1, simulate=j["behaviours"], depth=40, seed=seed, timeout=1500)
    w = st["world"]
    all_fields = sorted({f for td in w.types.values() if td["kind"] == "OBJECT" for f in td["fields"]})
    records, meta = [], {}
    tid = 0
    multi = 0
    for case in st["cases"]:
        for rep in range(j["schedules_per_case"]):
            tid += 1
            fl = FLAGSETS[rng.randrange(len(FLAGSETS))]
            seq = all_fields if fl["seq"] == "ALL" else fl["seq"]
            c = dict(case)
            c["seq"], c["lconc"] = seq, fl["lconc"]
            c["argsync"] = rng.random() < 0.5
            g = execreplay.GatedRun(w, c, execreplay.engine_cfg_for(c))
            g.start()
            init = sorted(map(list, g.pending()))
            events = []
            guard = 0
            maxp = len(init)
            while not g.done() and guard < 500:
                pend = sorted(g.pending())
                if not pend:
                    break
                p = pend[rng.randrange(len(pend))]
                g.release(p)
                now = sorted(map(list, g.pending()))
                maxp = max(maxp, len(now))
                events.append({"p": list(p), "pending": now})
                guard += 1
            deadlock = not g.done()
            if deadlock:
                for f in g.cs.gates.values():
                    if not f.done():
                        f.cancel()
                g.task.cancel()
                g.loop.idle()
                resp = {"__raised__": "deadlock"}
            else:
                resp = g.result()
            w.case = None
            leftover = bool(g.pending()) or bool(g.loop.live_tasks()) or deadlock or not isinstance(resp, dict) or "__raised__" in resp
            errpaths = []
            if isinstance(resp, dict):
                for e in resp.get("errors") or []:
                    if isinstance(e, dict) and isinstance(e.get("path"), list):
                        errpaths.append(render.path_spec(e["path"]))
                    else:
                        leftover = True
            if maxp >= 2:
                multi += 1
            records.append({"tid": tid, "nodes": case["nodes"], "op": case["op"], "vars": case["cvars"], "overlay": case["overlay"],
                            "seq": seq, "lconc": fl["lconc"], "init": init, "events": events,
                            "data": spec_value(case, resp), "errpaths": errpaths, "leftover": leftover})
            meta[tid] = {"query": g.doc.text, "faults": case["overlay"], "seq_fields": seq if fl["seq"] != "ALL" else "ALL", "list_concurrently": fl["lconc"],
                         "schedule": [e["p"] for e in events], "response": repr(resp)[:1500]}
    verdicts, tres = tracecheck.judge("Trace_sched.tla", "Trace_sched.cfg", records, timeout=2400)
    viol = []
    nonconf = sum(1 for r in records if verdicts[r["tid"]][0] and verdicts[r["tid"]][1])
    for r in records:
        ok, clause = verdicts[r["tid"]]
        if not ok and len(viol) < 400:
            genrun.add_viol(viol, ({"kind": "trace-rejected", "clause": clause}, {"record": r, "meta": meta[r["tid"]]}))
    extra_out = {"records": records} if j.get("keep_records") else {}
    return {**extra_out, "job": j, "tlc": [genrun.tlc_summary("MC_faults_sim.cfg(simulate seed=%d)" % seed, res, exhaustive=False), genrun.tlc_summary("Trace_sched.cfg", tres)],
            "evaluations": len(records), "traces": len(records), "distinct": [hash(meta[t]["query"] + repr(meta[t]["schedule"])) for t in meta],
            "samples": [meta[t] for t in list(meta)[3:4]], "violations": viol, "extra": {"traces_accepted_but_not_model_conformant": nonconf, "traces_with_2plus_pending": multi, "trace_events": sum(len(r["events"]) for r in records)}}


def spec_value(case, resp):
    """the response data in the spec's tagged Value form (leaf kinds taken from the expected value's shape)"""
    data = resp.get("data") if isinstance(resp, dict) else None
    return tag(data)


def tag(v):
    if v is None:
        return {"t": "N"}
    if isinstance(v, bool):
        return {"t": "B", "v": v}
    if isinstance(v, int):
        return {"t": "I", "v": v}
    if isinstance(v, str):
        return {"t": "S", "v": v}
    if isinstance(v, list):
        return {"t": "L", "v": [tag(x) for x in v]}
    if isinstance(v, dict):
        return {"t": "O", "v": [[k, tag(x)] for k, x in v.items()]}
    return {"t": "K", "v": "OTHER"}
