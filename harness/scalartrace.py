"""R3 for C10: seeded random values around every boundary, classified to the tokens of
Scalars.tla; the engine's outcome is classified back and TLC judges the observation."""
import math
import random

import tokens
import tracecheck
import genrun

B31, B53 = 2 ** 31, 2 ** 53


def classify(v):
    """concrete Python value -> token of Scalars.tla (None when the value is outside the universe)"""
    if isinstance(v, bool):
        return "bT" if v else "bF"
    if isinstance(v, int):
        if v == 0:
            return "iZERO"
        if v == 1:
            return "iONE"
        if v == B31 - 1:
            return "iMAX"
        if v == -B31:
            return "iMIN"
        if -B31 < v < B31 - 1:
            return "iS"
        if abs(v) >= 10 ** 25:
            return "iHUGE"
        if abs(v) >= B53:
            return "i2P53"
        return "iOVER"
    if isinstance(v, float):
        if math.isnan(v):
            return "NAN"
        if math.isinf(v):
            return "PINF" if v > 0 else "NINF"
        if v == math.floor(v):
            if v == 0:
                return "fZERO"
            if v == 1:
                return "fONE"
            if v == B31 - 1:
                return "fMAX"
            if v == -B31:
                return "fMIN"
            if -B31 < v < B31 - 1:
                return "fS"
            if abs(v) >= 1e300:
                return "fBIG"
            if abs(v) >= 1e25:
                return "fHUGEI"
            if abs(v) >= B53:
                return "f2P53"
            return "fOVER"
        if abs(v) < 1e-300:
            return "fDENORM"
        return "fFRAC"
    if isinstance(v, str):
        s = v
        if s == "":
            return "sEMPTY"
        if s.strip() == "":
            return "sBLANK"
        if s == "true":
            return "sTRUE"
        if s == "false":
            return "sFALSE"
        try:
            n = int(s)
            if str(n) == s:
                if n == 0:
                    return "sZERO"
                if n == 1:
                    return "sONE"
                if n == B31 - 1:
                    return "sMAX"
                if n == -B31:
                    return "sMIN"
                if -B31 < n < B31 - 1:
                    return "sS"
                if abs(n) >= 10 ** 25:
                    return "sHUGE"
                if abs(n) >= B53:
                    return "s2P53"
                return "sOVER"
        except ValueError:
            pass
        try:
            f = float(s)
            if not math.isfinite(f):
                return "sNONFIN"
            if f != math.floor(f) and s == repr(f):
                return "sFRAC"
            return None            # other numeric spellings ("1e3", "007", " 5"): outside the token universe
        except ValueError:
            pass
        return "sUNI" if any(ord(c) > 127 for c in s) else "sTXT"
    return None


def same_value(a, b):
    """does outcome b denote the same value as input a (numerically / textually)?"""
    try:
        if isinstance(b, bool) or isinstance(a, bool):
            if isinstance(a, bool) and isinstance(b, bool):
                return a == b
            if isinstance(b, bool):
                return (float(a) != 0) == b
            if isinstance(b, str):
                return b == ("true" if a else "false")
            return float(b) == (1.0 if a else 0.0)
        if isinstance(b, str):
            if isinstance(a, str):
                return a == b
            if isinstance(a, int):
                return b == str(a)
            # a float rendered as text: any spelling that reads back as the same number
            try:
                fb = float(b)
            except ValueError:
                return False
            return fb == a or (math.isnan(fb) and math.isnan(a))
        if isinstance(a, str):
            return float(a) == float(b)
        if isinstance(b, float):
            return float(a) == b         # a Float denotes the nearest double of the number
        return a == b
    except (ValueError, OverflowError, TypeError):
        return False


def draws(rng, n):
    out = []
    centers = [0, 1, -1, B31, -B31, B31 - 1, B53, -B53, 10 ** 30, -10 ** 30, 255, 65536]
    for _ in range(n):
        k = rng.randrange(9)
        c = rng.choice(centers)
        if k == 0:
            out.append(c + rng.randrange(-3, 4))
        elif k == 1:
            out.append(float(c + rng.randrange(-3, 4)))
        elif k == 2:
            out.append(c + rng.choice([0.5, -0.5, 0.25, 1e-9, -1e-9]))
        elif k == 3:
            out.append(str(c + rng.randrange(-3, 4)))
        elif k == 4:
            out.append(rng.choice([1e308, -1e308, 1.7976931348623157e308, 5e-324, -5e-324, 2.2250738585072014e-308, float("nan"), float("inf"), float("-inf")]))
        elif k == 5:
            out.append(rng.choice(["", " ", "\t", "abc", "é", "true", "false", "nan", "inf", "-inf", "1e999", "Infinity", "null", "0x10", "☃☃"]))
        elif k == 6:
            out.append(rng.random() * 10 ** rng.randrange(-5, 20) * rng.choice([1, -1]))
        elif k == 7:
            out.append(rng.choice([True, False]))
        else:
            out.append(rng.randrange(-10 ** 12, 10 ** 12))
    return out


def job(j):
    from checks import c10
    rng = random.Random(j["seed"])
    env = c10.Env()
    records, meta = [], {}
    tid = 0
    for v in draws(rng, j["n"]):
        tin = classify(v)
        if tin is None:
            continue
        for s in ["Int", "Float", "String", "Boolean", "ID"]:
            for d in ("out", "in", "lit"):
                cell = {"s": s, "dir": d, "t": tin, "k": ""}
                if d == "lit":
                    nat = {"i": "IntValue", "f": "FloatValue", "s": "StringValue", "b": "BooleanValue"}[tin[0]] if tin[0] in "ifsb" else None
                    if nat is None or tin in ("NAN", "PINF", "NINF") or (isinstance(v, float) and ("e" in repr(v) and tin in ("fDENORM",) and False)):
                        continue
                    cell["k"] = nat
                tid += 1
                obs, resp = observe_value(env, cell, v)
                if obs == "FAIL":
                    tout, same = "FAIL", True
                elif obs[0] == "OK":
                    tout = classify(obs[1])
                    same = same_value(v, obs[1])
                    if tout is None:
                        tout = "ANYSTR" if isinstance(obs[1], str) else "UNCLASSIFIED"
                    if isinstance(obs[1], str) and tout not in ("FAIL",) and s in ("String", "ID") and not isinstance(v, str):
                        # numbers rendered as text: the token of the text, or ANYSTR where the spec leaves the rendering open
                        pass
                else:
                    tout, same = "RAISED", False
                records.append({"tid": tid, "s": s, "dir": d, "k": cell["k"], "tin": tin, "tout": tout, "sameval": bool(same), "isStr": obs != "FAIL" and obs[0] == "OK" and isinstance(obs[1], str)})
                meta[tid] = {"scalar": s, "direction": d, "value": repr(v), "token": tin, "observed": repr(obs)[:200], "observed_token": tout}
    verdicts, tres = tracecheck.judge("Trace_scalar.tla", "Trace_scalar.cfg", records)
    viol = []
    for r in records:
        ok, clause = verdicts[r["tid"]]
        if not ok:
            genrun.add_viol(viol, ({"kind": "trace-rejected", "clause": clause, "scalar": r["s"], "dir": r["dir"], "token": r["tin"], "outcome": r["tout"]}, {"record": r, "meta": meta[r["tid"]]}))
    return {"job": j, "tlc": [genrun.tlc_summary("Trace_scalar.cfg", tres)], "evaluations": len(records), "traces": len(records),
            "distinct": [hash((m["scalar"], m["direction"], m["value"])) for m in meta.values()], "samples": [meta[t] for t in list(meta)[10:12]], "violations": viol}


def observe_value(env, cell, v):
    """like c10.observe but with an arbitrary concrete value"""
    from base import main_loop
    import render
    s, d = cell["s"], cell["dir"]
    if d == "out":
        env.ret = v
        resp = env.run("{ out%s }" % s)
        if not isinstance(resp, dict) or "__raised__" in resp:
            return ("RAISED", resp), resp
        val = (resp.get("data") or {}).get("out%s" % s)
        if resp.get("errors"):
            return ("FAIL" if val is None else ("BOTH", val)), resp
        return ("OK", val), resp
    if d == "in":
        resp = env.run("query ($a: %s) { in%s(a: $a) }" % (s, s), {"a": v})
    else:
        if isinstance(v, bool):
            text = "true" if v else "false"
        elif isinstance(v, str):
            text = render.gql_string(v)
        elif isinstance(v, float):
            text = repr(v)
            if "inf" in text or "nan" in text:
                return "FAIL", None
        else:
            text = str(v)
        resp = env.run("{ in%s(a: %s) }" % (s, text))
    if not isinstance(resp, dict) or "__raised__" in resp:
        return ("RAISED", resp), resp
    if resp.get("errors"):
        return ("FAIL" if not env.got else ("BOTH", env.got)), resp
    if len(env.got) != 1 or "a" not in env.got[0]:
        return ("NOARG", env.got), resp
    return ("OK", env.got[0]["a"]), resp
