"""Projection of concrete engine output onto the tagged values / records the trace
specifications read (no JSON null, no floats, ints below 2^31)."""
import json
import math
import re

_IDENT = re.compile(r"^[_A-Za-z][_0-9A-Za-z]{0,30}$")


def leaf(v):
    if v is None:
        return {"t": "N"}
    if isinstance(v, bool):
        return {"t": "B", "v": v}
    if isinstance(v, int):
        if -2**31 <= v < 2**31:
            return {"t": "I", "v": v}
        return {"t": "K", "v": "iOVER"}
    if isinstance(v, float):
        if not math.isfinite(v):
            return {"t": "K", "v": "fNONFIN"}
        if v == math.floor(v) and -2**31 <= v < 2**31:
            return {"t": "K", "v": "fINT32"}
        return {"t": "K", "v": "fFIN"}
    if isinstance(v, str):
        return {"t": "S", "v": v if _IDENT.match(v) else "<str>"}
    return {"t": "K", "v": "OTHER"}


def value(v):
    if isinstance(v, dict):
        return {"t": "O", "v": [[str(k), value(x)] for k, x in v.items()]}
    if isinstance(v, list):
        return {"t": "L", "v": [value(x) for x in v]}
    return leaf(v)


def geometry(text):
    if isinstance(text, bytes):
        text = text.decode("utf-8", "replace")
    lines = re.split(r"\r\n|\n|\r", text)
    return [len(l) for l in lines]


def error_entry(e):
    if not isinstance(e, dict):
        return {"msgIsStr": False, "path": "bad", "locs": [], "locsOk": False, "hasExt": False, "extEmpty": False, "keysOk": False}
    p = e.get("path", "absent") if "path" in e else "absent"
    path = "null" if p is None else ("list" if isinstance(p, list) else ("absent" if p == "absent" else "bad"))
    locs = e.get("locations")
    locs_ok = isinstance(locs, list) and all(isinstance(l, dict) and set(l.keys()) == {"line", "column"} and
                                              all(isinstance(l[k], int) and not isinstance(l[k], bool) and abs(l[k]) < 2**31 for k in l) for l in locs)
    return {"msgIsStr": isinstance(e.get("message"), str), "path": path,
            "locs": [[l["line"], l["column"]] for l in locs] if locs_ok else [], "locsOk": bool(locs_ok),
            "hasExt": "extensions" in e, "extEmpty": "extensions" in e and not e["extensions"],
            "keysOk": set(e.keys()) <= {"message", "path", "locations", "extensions"}}


def response(resp):
    if isinstance(resp, dict) and "__raised__" in resp:
        return {"raised": True, "isDict": False, "hasData": False, "keysOk": False, "data": {"t": "N"}, "hasErrors": False, "errors": [], "jsonOk": False}
    if not isinstance(resp, dict):
        return {"raised": False, "isDict": False, "hasData": False, "keysOk": False, "data": {"t": "N"}, "hasErrors": False, "errors": [], "jsonOk": False}
    try:
        json.dumps(resp, allow_nan=False)
        json_ok = True
    except (TypeError, ValueError, OverflowError, RecursionError):
        json_ok = False
    errs = resp.get("errors")
    has_err = "errors" in resp
    return {"raised": False, "isDict": True, "hasData": "data" in resp, "keysOk": set(resp.keys()) <= {"data", "errors"},
            "data": value(resp.get("data")), "hasErrors": has_err,
            "errors": [error_entry(e) for e in errs] if isinstance(errs, list) else [],
            "jsonOk": json_ok and (not has_err or isinstance(errs, list))}
