"""Prototype stand-in for libgraphqlparser: a pure-Python GraphQL executable-document
parser that emits the libgraphqlparser JSON AST, exposed through a fake cffi lib."""
import json, re

class GQLSyntaxError(Exception):
    pass

PUNCT = set("!$():=@[]{}|&")
NAME_RE = re.compile(r"[_A-Za-z][_0-9A-Za-z]*")
NUM_RE = re.compile(r"-?(0|[1-9][0-9]*)(\.[0-9]+)?([eE][+-]?[0-9]+)?")

class Tok:
    __slots__ = ("kind", "value", "line", "col", "eline", "ecol")
    def __init__(s, kind, value, line, col, eline, ecol):
        s.kind, s.value, s.line, s.col, s.eline, s.ecol = kind, value, line, col, eline, ecol
    def __repr__(s): return f"Tok({s.kind},{s.value!r},{s.line}:{s.col})"

def lex(src):
    toks = []
    i, n, line, col = 0, len(src), 1, 1
    if src.startswith("﻿"):
        i = 1
    while i < n:
        c = src[i]
        if c == "\n":
            i += 1; line += 1; col = 1; continue
        if c == "\r":
            i += 1
            if i < n and src[i] == "\n": i += 1
            line += 1; col = 1; continue
        if c in " \t,":
            i += 1; col += 1; continue
        if c == "#":
            while i < n and src[i] not in "\r\n":
                i += 1; col += 1
            continue
        if src.startswith("...", i):
            toks.append(Tok("...", "...", line, col, line, col + 3)); i += 3; col += 3; continue
        if c in PUNCT:
            toks.append(Tok(c, c, line, col, line, col + 1)); i += 1; col += 1; continue
        m = NAME_RE.match(src, i)
        if m:
            v = m.group(0)
            toks.append(Tok("NAME", v, line, col, line, col + len(v))); i += len(v); col += len(v); continue
        if c == "-" or c.isdigit():
            m = NUM_RE.match(src, i)
            if not m:
                raise GQLSyntaxError(f"{line}.{col}: syntax error, unexpected character")
            v = m.group(0)
            # a number must not be directly followed by a name start or digit/dot
            j = i + len(v)
            if j < n and (src[j].isalnum() or src[j] in "_."):
                raise GQLSyntaxError(f"{line}.{col}: syntax error, invalid number")
            kind = "FLOAT" if (m.group(2) or m.group(3)) else "INT"
            toks.append(Tok(kind, v, line, col, line, col + len(v))); i = j; col += len(v); continue
        if c == '"':
            sl, sc = line, col
            if src.startswith('"""', i):
                j = src.find('"""', i + 3)
                while j != -1 and src[j - 1] == "\\":
                    j = src.find('"""', j + 3)
                if j == -1:
                    raise GQLSyntaxError(f"{line}.{col}: syntax error, unterminated block string")
                raw = src[i + 3:j].replace('\\"""', '"""')
                for ch in src[i:j + 3]:
                    if ch == "\n": line += 1; col = 1
                    else: col += 1
                toks.append(Tok("STRING", block_string_value(raw), sl, sc, line, col)); i = j + 3; continue
            j = i + 1; out = []
            while True:
                if j >= n or src[j] in "\r\n":
                    raise GQLSyntaxError(f"{line}.{col}: syntax error, unterminated string")
                ch = src[j]
                if ch == '"':
                    break
                if ch == "\\":
                    j += 1
                    if j >= n: raise GQLSyntaxError(f"{line}.{col}: syntax error, bad escape")
                    e = src[j]
                    if e == "u":
                        h = src[j + 1:j + 5]
                        if not re.fullmatch(r"[0-9A-Fa-f]{4}", h):
                            raise GQLSyntaxError(f"{line}.{col}: syntax error, bad unicode escape")
                        out.append(chr(int(h, 16))); j += 5; continue
                    mp = {'"': '"', "\\": "\\", "/": "/", "b": "\b", "f": "\f", "n": "\n", "r": "\r", "t": "\t"}
                    if e not in mp: raise GQLSyntaxError(f"{line}.{col}: syntax error, bad escape")
                    out.append(mp[e]); j += 1; continue
                out.append(ch); j += 1
            ln = j + 1 - i
            toks.append(Tok("STRING", "".join(out), sl, sc, line, col + ln)); i = j + 1; col += ln; continue
        raise GQLSyntaxError(f"{line}.{col}: syntax error, unexpected character {c!r}")
    toks.append(Tok("EOF", None, line, col, line, col))
    return toks

def block_string_value(raw):
    lines = re.split(r"\r\n|[\n\r]", raw)
    common = None
    for l in lines[1:]:
        ind = len(l) - len(l.lstrip(" \t"))
        if ind < len(l) and (common is None or ind < common):
            common = ind
    if common:
        lines = [lines[0]] + [l[common:] for l in lines[1:]]
    while lines and not lines[0].strip(" \t"): lines.pop(0)
    while lines and not lines[-1].strip(" \t"): lines.pop()
    return "\n".join(lines)

class Parser:
    def __init__(s, src):
        s.toks = lex(src); s.p = 0
    @property
    def t(s): return s.toks[s.p]
    def err(s, msg=None):
        t = s.t
        what = "EOF" if t.kind == "EOF" else (t.value if t.kind in ("NAME",) else t.kind)
        raise GQLSyntaxError(f"{t.line}.{t.col}" + (f"-{t.ecol - 1}" if t.ecol - t.col > 1 else "") + f": syntax error, unexpected {what}" + (f", {msg}" if msg else ""))
    def eat(s, kind, value=None):
        t = s.t
        if t.kind != kind or (value is not None and t.value != value): s.err(f"expecting {value or kind}")
        s.p += 1; return t
    def at(s, kind, value=None):
        t = s.t
        return t.kind == kind and (value is None or t.value == value)
    def loc(s, st, en):
        return {"start": {"line": st.line, "column": st.col}, "end": {"line": en.eline, "column": en.ecol}}
    def prev(s): return s.toks[s.p - 1]
    def name(s):
        t = s.eat("NAME")
        return {"kind": "Name", "loc": s.loc(t, t), "value": t.value}
    def document(s):
        st = s.t; defs = []
        while not s.at("EOF"):
            defs.append(s.definition())
        if not defs: s.err()
        return {"kind": "Document", "loc": s.loc(st, s.prev()), "definitions": defs}
    def definition(s):
        if s.at("{"):
            st = s.t; ss = s.selection_set()
            return {"kind": "OperationDefinition", "loc": s.loc(st, s.prev()), "operation": "query", "name": None,
                    "variableDefinitions": None, "directives": None, "selectionSet": ss}
        if s.at("NAME") and s.t.value in ("query", "mutation", "subscription"):
            st = s.eat("NAME")
            nm = s.name() if s.at("NAME") else None
            vds = s.variable_definitions() if s.at("(") else None
            dirs = s.directives()
            ss = s.selection_set()
            return {"kind": "OperationDefinition", "loc": s.loc(st, s.prev()), "operation": st.value, "name": nm,
                    "variableDefinitions": vds, "directives": dirs, "selectionSet": ss}
        if s.at("NAME", "fragment"):
            st = s.eat("NAME")
            if s.at("NAME", "on"): s.err()
            nm = s.name()
            s.eat("NAME", "on")
            tc = s.named_type()
            dirs = s.directives()
            ss = s.selection_set()
            return {"kind": "FragmentDefinition", "loc": s.loc(st, s.prev()), "name": nm, "typeCondition": tc,
                    "directives": dirs, "selectionSet": ss}
        s.err()
    def variable_definitions(s):
        s.eat("("); out = []
        while not s.at(")"):
            st = s.t; var = s.variable(); s.eat(":"); ty = s.type_()
            dv = None
            if s.at("="):
                s.eat("="); dv = s.value(const=True)
            out.append({"kind": "VariableDefinition", "loc": s.loc(st, s.prev()), "variable": var, "type": ty, "defaultValue": dv})
        if not out: s.err()
        s.eat(")"); return out
    def variable(s):
        st = s.eat("$"); nm = s.name()
        return {"kind": "Variable", "loc": s.loc(st, s.prev()), "name": nm}
    def type_(s):
        st = s.t
        if s.at("["):
            s.eat("["); inner = s.type_(); s.eat("]")
            ty = {"kind": "ListType", "loc": s.loc(st, s.prev()), "type": inner}
        else:
            ty = s.named_type()
        if s.at("!"):
            s.eat("!")
            ty = {"kind": "NonNullType", "loc": s.loc(st, s.prev()), "type": ty}
        return ty
    def named_type(s):
        st = s.t; nm = s.name()
        return {"kind": "NamedType", "loc": s.loc(st, s.prev()), "name": nm}
    def directives(s):
        out = []
        while s.at("@"):
            st = s.eat("@"); nm = s.name()
            args = s.arguments() if s.at("(") else None
            out.append({"kind": "Directive", "loc": s.loc(st, s.prev()), "name": nm, "arguments": args})
        return out or None
    def arguments(s):
        s.eat("("); out = []
        while not s.at(")"):
            st = s.t; nm = s.name(); s.eat(":"); v = s.value()
            out.append({"kind": "Argument", "loc": s.loc(st, s.prev()), "name": nm, "value": v})
        if not out: s.err()
        s.eat(")"); return out
    def selection_set(s):
        st = s.eat("{"); sels = []
        while not s.at("}"):
            sels.append(s.selection())
        if not sels: s.err()
        s.eat("}")
        return {"kind": "SelectionSet", "loc": s.loc(st, s.prev()), "selections": sels}
    def selection(s):
        st = s.t
        if s.at("..."):
            s.eat("...")
            if s.at("NAME") and s.t.value != "on":
                nm = s.name(); dirs = s.directives()
                return {"kind": "FragmentSpread", "loc": s.loc(st, s.prev()), "name": nm, "directives": dirs}
            tc = None
            if s.at("NAME", "on"):
                s.eat("NAME"); tc = s.named_type()
            dirs = s.directives(); ss = s.selection_set()
            return {"kind": "InlineFragment", "loc": s.loc(st, s.prev()), "typeCondition": tc, "directives": dirs, "selectionSet": ss}
        nm = s.name(); alias = None
        if s.at(":"):
            s.eat(":"); alias = nm; nm = s.name()
        args = s.arguments() if s.at("(") else None
        dirs = s.directives()
        ss = s.selection_set() if s.at("{") else None
        return {"kind": "Field", "loc": s.loc(st, s.prev()), "alias": alias, "name": nm, "arguments": args,
                "directives": dirs, "selectionSet": ss}
    def value(s, const=False):
        st = s.t
        if s.at("$"):
            if const: s.err()
            return s.variable()
        if s.at("INT"):
            s.p += 1; return {"kind": "IntValue", "loc": s.loc(st, st), "value": st.value}
        if s.at("FLOAT"):
            s.p += 1; return {"kind": "FloatValue", "loc": s.loc(st, st), "value": st.value}
        if s.at("STRING"):
            s.p += 1; return {"kind": "StringValue", "loc": s.loc(st, st), "value": st.value}
        if s.at("NAME"):
            s.p += 1
            if st.value in ("true", "false"):
                return {"kind": "BooleanValue", "loc": s.loc(st, st), "value": st.value == "true"}
            if st.value == "null":
                return {"kind": "NullValue", "loc": s.loc(st, st)}
            return {"kind": "EnumValue", "loc": s.loc(st, st), "value": st.value}
        if s.at("["):
            s.eat("["); vals = []
            while not s.at("]"): vals.append(s.value(const))
            s.eat("]")
            return {"kind": "ListValue", "loc": s.loc(st, s.prev()), "values": vals}
        if s.at("{"):
            s.eat("{"); fields = []
            while not s.at("}"):
                fst = s.t; nm = s.name(); s.eat(":"); v = s.value(const)
                fields.append({"kind": "ObjectField", "loc": s.loc(fst, s.prev()), "name": nm, "value": v})
            s.eat("}")
            return {"kind": "ObjectValue", "loc": s.loc(st, s.prev()), "fields": fields}
        s.err()

def parse_to_json(src):
    if isinstance(src, bytes):
        src = src.decode("utf-8")
    return json.dumps(Parser(src).document())

# ---- fake cffi lib ---------------------------------------------------------
def install():
    import cffi
    real_dlopen = cffi.FFI.dlopen
    class FakeLib:
        def __init__(self, ffi):
            self.ffi = ffi; self._keep = {}
        def graphql_parse_string(self, text, errors):
            ffi = self.ffi
            raw = ffi.string(text)
            try:
                js = parse_to_json(raw).encode("utf-8")
            except GQLSyntaxError as e:
                buf = ffi.new("char[]", str(e).encode("utf-8"))
                self._keep[int(ffi.cast("uintptr_t", buf))] = buf
                errors[0] = buf
                return ffi.NULL
            except UnicodeDecodeError as e:
                buf = ffi.new("char[]", b"1.1: syntax error, invalid UTF-8")
                self._keep[int(ffi.cast("uintptr_t", buf))] = buf
                errors[0] = buf
                return ffi.NULL
            buf = ffi.new("char[]", js)
            self._keep[int(ffi.cast("uintptr_t", buf))] = buf
            return ffi.cast("struct GraphQLAstNode *", buf)
        def graphql_ast_to_json(self, node):
            return self.ffi.cast("char *", node)
        def graphql_node_free(self, node):
            self._keep.pop(int(self.ffi.cast("uintptr_t", node)), None)
        def graphql_error_free(self, err):
            self._keep.pop(int(self.ffi.cast("uintptr_t", err)), None)
    def dlopen(self, name, flags=0):
        if isinstance(name, str) and "libgraphqlparser" in name:
            return FakeLib(self)
        return real_dlopen(self, name, flags)
    cffi.FFI.dlopen = dlopen

def pytest_configure(config):
    pass
install()
