"""R2 driver for execution cases printed by MC_exec / MC_faults: render, run the real
engine, project, compare with what the specification predicted."""
import render
from base import main_loop
from execworld import CaseState, table_of, args_py, variables_py


def op_name(case):
    n = case["nodes"][case["op"] - 1]
    return n["name"] or None


def shape_class(nodes):
    """document shape class used for distinct_nontrivial accounting"""
    kinds = tuple(sorted((n["k"], bool(n["alias"]), bool(n["cond"]), len(n["dirs"]), len(n["args"])) for n in nodes))
    return kinds


def run_plain(world, case, cfg=None, ctx=None, layout=0, rename_frags=False, reverse_defs=False, initial=None, rename_vars=False):
    """execute the case's request without gates; returns (response, CaseState, DocText)"""
    eng = world.engine(cfg)
    nodes, vmap = (render.rename_variables(case["nodes"], shared=(rename_vars == "shared")) if rename_vars else (case["nodes"], {}))
    doc = render.DocText(nodes, layout=layout, rename_frags=rename_frags, reverse_defs=reverse_defs)
    cs = CaseState(table_of(case["calls"]))
    world.case = cs
    ctx = ctx if ctx is not None else {"ctx": id(cs)}
    cs.ctx = ctx
    variables = {vmap.get(k, k): v for k, v in variables_py(case["given"]).items()}
    loop = main_loop()
    try:
        resp = loop.run(eng.execute(doc.text, operation_name=op_name(case), context=ctx, variables=variables, initial_value=initial))
    except BaseException as e:  # an exception escaping execute is itself an observation
        resp = {"__raised__": repr(e)}
    world.case = None
    cs.root_id = world.ident(initial)
    return resp, cs, doc


def compare_calls(case, cs, exact=True):
    """-> list of mismatch strings.  Every expected call exactly once with the same
    parent identity, arguments and the caller's context; nothing unexpected."""
    out = []
    exp = {tuple(c["path"]): c for c in case["calls"]}
    seen = {}
    for path, parent, args, ctx in cs.calls:
        seen[path] = seen.get(path, 0) + 1
        e = exp.get(path)
        if e is None:
            out.append("unexpected resolver call at %s" % (list(path),))
            continue
        want_parent = e["parent"] if len(path) > 1 else getattr(cs, "root_id", "")     # root fields receive the caller's initial value
        if parent != want_parent:
            out.append("call %s parent %r != expected %r" % (list(path), parent, want_parent))
        ea = args_py(e["args"])
        if not render.strict_eq(dict(sorted(args.items())), dict(sorted(ea.items()))):
            out.append("call %s args %r != expected %r" % (list(path), args, ea))
        if ctx is not cs.ctx:
            out.append("call %s context is not the caller's context" % (list(path),))
    for path, n in seen.items():
        if n != 1:
            out.append("resolver at %s called %d times" % (list(path), n))
    if exact:
        for path in exp:
            if path not in seen:
                out.append("expected resolver call at %s did not happen" % (list(path),))
    return out


def compare_plain(case, resp, cs, expect_errors=False):
    """fault-free comparison: data exactly, no errors, calls exactly."""
    out = []
    if not isinstance(resp, dict) or "__raised__" in resp:
        return ["execute raised or returned a non-dict: %r" % (resp,)]
    exp = render.value_py(case["data"])
    if not render.strict_eq(resp.get("data"), exp):
        out.append("data %r != expected %r" % (resp.get("data"), exp))
    if not expect_errors and resp.get("errors"):
        out.append("unexpected errors %r" % (resp.get("errors"),))
    out.extend(compare_calls(case, cs))
    return out


def compare_faults(case, resp, cs, doc):
    """C02 comparison: data exactly; every error corresponds to a failure the
    specification raises (path), is located inside the failing field's text, carries a
    message; every nulled position is explained by >= 1 error; library errors keep
    message and extensions."""
    out = []
    if not isinstance(resp, dict) or "__raised__" in resp:
        return ["execute raised or returned a non-dict: %r" % (resp,)]
    exp = render.value_py(case["data"])
    if not render.strict_eq(resp.get("data"), exp):
        out.append("data %r != expected %r" % (resp.get("data"), exp))
    errs = resp.get("errors")
    exp_errs = {tuple(e["path"]): e for e in case["errs"]}
    overlay = {tuple(p): o for p, o in case["overlay"]}
    if not case["errs"]:
        if errs:
            out.append("unexpected errors %r" % (errs,))
    else:
        if not isinstance(errs, list) or not errs:
            out.append("errors missing although failures occurred")
            errs = []
    apaths = []
    for e in errs or []:
        if not isinstance(e, dict) or not isinstance(e.get("message"), str):
            out.append("error entry without string message: %r" % (e,))
            continue
        p = e.get("path")
        if not isinstance(p, list):
            out.append("error without path: %r" % (e,))
            continue
        sp = tuple(render.path_spec(p))
        apaths.append(sp)
        ee = exp_errs.get(sp)
        if ee is None:
            out.append("error at %s does not correspond to a failure (expected failures at %s)" % (list(sp), sorted(map(list, exp_errs))))
            continue
        locs = e.get("locations")
        if not isinstance(locs, list) or not locs:
            out.append("error at %s has no locations" % (list(sp),))
        else:
            for l in locs:
                if not any(doc.within(nid, l.get("line"), l.get("column")) for nid in ee["nodes"]):
                    out.append("error at %s location %r outside the failing field's text" % (list(sp), l))
        ov = overlay.get(sp)
        if ov and ov["o"] == "raiseLib" and any(tuple(c["path"]) == sp for c in case["calls"]):
            if e["message"] != "lib@" + "/".join(sp) or e.get("extensions") != {"code": "/".join(sp)}:
                out.append("library error at %s lost its message/extensions: %r" % (list(sp), e))
    ats = [tuple(n["at"]) for n in case["nulls"]]
    for n in case["nulls"]:
        at = tuple(n["at"])
        if any(o != at and at[:len(o)] == o for o in ats):
            continue    # inside an already nulled subtree: not visible in data, needs no explanation of its own
        why = {tuple(w) for w in n["why"]}
        if not any(a in why for a in apaths):
            out.append("nulled position %s is not explained by any error (candidates %s, got %s)" % (n["at"], sorted(map(list, why)), sorted(map(list, apaths))))
    out.extend(compare_calls(case, cs, exact=False))
    return out


def fault_class(case):
    """(failure kind, nullability layout root->fault, inside-list?, depth) per fault"""
    out = []
    for p, o in case["overlay"]:
        out.append((o["o"], o.get("tn", ""), len(p), any(x.startswith("#") for x in p),
                    tuple(sorted((tuple(n["at"]) == tuple(p)[:len(n["at"])], len(n["at"])) for n in case["nulls"]))))
    return tuple(sorted(out))


# ---- gated execution (C08 / C09 / C15) -------------------------------------------------
def engine_cfg_for(case):
    cfg = {"list_conc": bool(case["lconc"]), "seq_fields": tuple(sorted(case["seq"]))}
    if case.get("argsync"):
        cfg["args"] = "sync"          # arguments coerced one by one instead of gathered
    return cfg


class GatedRun:
    """One request in flight under the controlled loop.  step(path) satisfies the await
    of the resolver at `path`; pending() is the set of started-and-unfinished resolvers."""

    def __init__(self, world, case, cfg, loop=None, ctx=None):
        self.world = world
        self.case = case
        self.loop = loop or main_loop()
        self.eng = world.engine(cfg)
        self.doc = render.DocText(case["nodes"])
        self.cs = CaseState(table_of(case["calls"]), gated=True, loop=self.loop)
        self.cs.ctx = ctx if ctx is not None else {"ctx": id(self.cs)}
        self.cs.ctx["__cs"] = self.cs
        self.task = None

    def start(self):
        w = self.world
        w.case = self.cs
        self.task = self.loop.task(self.eng.execute(self.doc.text, operation_name=op_name(self.case), context=self.cs.ctx,
                                                    variables=variables_py(self.case["given"])))
        self.loop.idle()

    def pending(self):
        return {p for p, f in self.cs.gates.items() if not f.done()}

    def release(self, path):
        self.world.case = self.cs
        self.cs.gates[path].set_result(None)
        self.loop.idle()

    def done(self):
        return self.task.done()

    def result(self):
        try:
            return self.task.result()
        except BaseException as e:
            return {"__raised__": repr(e)}


def run_schedule(world, case, check_serial=False):
    """Drive the real engine along the schedule TLC printed.  Returns (mismatches, info)."""
    out = []
    info = {"deviations": 0, "steps": 0, "max_pending": 0}
    g = GatedRun(world, case, engine_cfg_for(case))
    g.start()
    order = [tuple(h["rel"]) for h in case["hist"]]
    expected_pending = [set(map(tuple, case["init"]))] + [set(map(tuple, h["pending"])) for h in case["hist"]]
    root_keys = None
    if check_serial:
        root_keys = []
        for c in case["calls"]:
            k = c["path"][0]
            if k not in root_keys:
                root_keys.append(k)
    step = 0
    seen_root_idx = -1
    guard = 0
    while not g.done():
        pend = g.pending()
        info["max_pending"] = max(info["max_pending"], len(pend))
        if step < len(expected_pending) and pend != expected_pending[step]:
            info["deviations"] += 1
        if check_serial and pend:
            roots = {p[0] for p in pend}
            if len(roots) > 1:
                out.append("mutation roots %s have resolvers in flight at the same time (pending %s)" % (sorted(roots), sorted(map(list, pend))))
                break
        if not pend:
            out.append("deadlock: execute not finished and no resolver pending (released %d)" % step)
            break
        nxt = None
        for p in order[step:] + order[:step]:
            if p in pend:
                nxt = p
                break
        if nxt is None:
            nxt = sorted(pend)[0]
        g.release(nxt)
        step += 1
        guard += 1
        if guard > 10000:
            out.append("no termination after 10000 releases")
            break
    info["steps"] = step
    if out:
        for f in g.cs.gates.values():
            if not f.done():
                f.cancel()
        if g.task and not g.task.done():
            g.task.cancel()
        g.loop.idle()
        world.case = None
        return out, info, g
    resp = g.result()
    world.case = None
    # everything started has finished, nothing left alive
    if g.pending():
        out.append("resolvers still pending after execute returned: %s" % sorted(map(list, g.pending())))
    live = [t for t in g.loop.live_tasks()]
    if live:
        out.append("%d tasks still alive after execute returned" % len(live))
    out.extend(compare_faults(case, resp, g.cs, g.doc))
    if check_serial:
        # start order of the roots is document order, never going back
        idx = -1
        for path, _p, _a, _c in g.cs.calls:
            i = root_keys.index(path[0]) if path[0] in root_keys else -1
            if i < idx:
                out.append("resolver under root %r started after a later root had begun" % (path[0],))
                break
            idx = max(idx, i)
        data = resp.get("data") if isinstance(resp, dict) else None
        if isinstance(data, dict):
            exp_keys = list(render.value_py(case["data"]).keys()) if case["data"]["t"] == "O" else []
            if list(data.keys()) != exp_keys:
                out.append("root fields not in document order: %r" % (list(data.keys()),))
    info["resp"] = resp
    return out, info, g



def _fn(k, parent, name, cond=""):
    return {"k": k, "parent": parent, "name": name, "alias": "", "cond": cond, "args": [], "dirs": [], "vdefs": [], "optype": "query" if k == "OP" else "", "ptype": ""}


FOREIGN_NODES = [_fn("OP", 0, "X"), _fn("F", 1, "o"), _fn("S", 2, "F1"), _fn("S", 2, "F2"),
                 _fn("FRAG", 0, "F1", "T"), _fn("F", 5, "d"), _fn("FRAG", 0, "F2", "T"), _fn("F", 7, "i")]
FOREIGN_CASE = {"nodes": FOREIGN_NODES, "op": 1, "given": [], "overlay": [],
                "calls": [{"path": ["o"], "parent": "", "args": [], "ret": {"r": "obj", "id": "o", "tn": "T", "d": "o.d"}},
                          {"path": ["o", "i"], "parent": "o", "args": [], "ret": {"r": "leaf", "v": {"t": "I", "v": 7}}}]}
FOREIGN_EXPECTED = {"data": {"o": {"d": "o.d", "i": 7}}}


def foreign_request(world, cfg):
    return GatedRun(world, FOREIGN_CASE, cfg)


def as_single(multi, i):
    """request i of a multi case as a plain exec case"""
    r = multi["reqs"][i]
    return {"nodes": multi["nodes"], "op": r["op"], "given": r["given"], "overlay": r["overlay"], "data": r["data"],
            "errs": r["errs"], "nulls": r["nulls"], "calls": r["calls"], "seq": multi["seq"], "lconc": multi["lconc"],
            "init": r["init"], "hist": []}


def run_multi(world, multi):
    """Several requests in flight on ONE engine, interleaved as TLC prescribes.  Each
    response is compared with the specification's solo prediction; afterwards each
    request is re-run alone on the same engine and on a fresh engine."""
    out = []
    cfg = {"list_conc": bool(multi["lconc"]), "seq_fields": tuple(sorted(multi["seq"]))}
    cases = [as_single(multi, i) for i in range(len(multi["reqs"]))]
    # a companion request with ANOTHER document that reuses the fragment names F1 / F2 with other bodies is in flight
    # during the whole interleaving (started first, released last); it must answer what it answers alone
    foreign = None
    if any(n["k"] == "FRAG" for n in multi["nodes"]):
        foreign = foreign_request(world, cfg)
        foreign.start()
    runs = [GatedRun(world, c, cfg) for c in cases]
    for g in runs:
        g.start()
    deviations = 0
    for h in multi["hist"]:
        g = runs[h["rid"] - 1]
        p = tuple(h["p"])
        if p in g.pending():
            g.release(p)
        else:
            deviations += 1
    guard = 0
    while not all(g.done() for g in runs):
        progressed = False
        for g in runs:
            pend = g.pending()
            if pend:
                g.release(sorted(pend)[0])
                progressed = True
        guard += 1
        if not progressed or guard > 1000:
            out.append("deadlock with several requests in flight")
            for g in runs:
                if g.task and not g.task.done():
                    g.task.cancel()
            main_loop().idle()
            return out, deviations
    if foreign is not None:
        guard = 0
        while not foreign.done() and guard < 50:
            pend = foreign.pending()
            if not pend:
                break
            foreign.release(sorted(pend)[0])
            guard += 1
        got = foreign.result() if foreign.done() else {"__raised__": "companion request did not finish"}
        if got != FOREIGN_EXPECTED:
            out.append("companion request (another document reusing the fragment names) answered %r, alone it answers %r" % (got, FOREIGN_EXPECTED))
    for i, g in enumerate(runs):
        resp = g.result()
        mm = compare_faults(cases[i], resp, g.cs, g.doc)
        out.extend("request %d (interleaved): %s" % (i + 1, m) for m in mm)
        # calls of this request carry this request's context only
        for path, _p, _a, ctx in g.cs.calls:
            if ctx is not g.cs.ctx:
                out.append("request %d: resolver %s received another request's context" % (i + 1, list(path)))
    # afterwards: the same requests alone, same engine
    for i, c in enumerate(cases):
        resp, cs, doc = run_plain(world, c, cfg)
        mm = compare_faults(c, resp, cs, doc)
        out.extend("request %d (alone, afterwards): %s" % (i + 1, m) for m in mm)
    return out, deviations
