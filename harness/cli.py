import importlib, os, sys


def main():
    args = sys.argv[1:]
    if not args:
        print("usage: check <ID|setup|selftest> [--tier quick|thorough] [--replay path]")
        return 2
    what = args[0]
    rest = args[1:]
    i = 0
    replay = None
    while i < len(rest):
        if rest[i] == "--tier" and i + 1 < len(rest):
            os.environ["VERIF_TIER"] = rest[i + 1]
            i += 2
        elif rest[i] == "--replay" and i + 1 < len(rest):
            replay = rest[i + 1]
            i += 2
        else:
            i += 1
    import base  # noqa: F401  (stand-in parser, sys.path)
    if replay:
        import replaytool
        return replaytool.replay(replay)
    name = what.lower()
    try:
        mod = importlib.import_module("checks." + name)
    except ModuleNotFoundError as e:
        print("unknown check %s (%s)" % (what, e))
        return 2
    return mod.main(rest)


if __name__ == "__main__":
    sys.exit(main())
