"""./check <ID> --replay <path>: re-execute a recorded violation against the current tree."""
import json
import sys

import tlc
import render
from execworld import World
import execreplay


def exec_world():
    st = {}

    def on_line(rec):
        if rec["kind"] == "schema" and "w" not in st:
            st["w"] = World(rec["types"], rec["roots"])
            raise StopIteration
    tlc.run("MC_exec.tla", "MC_exec_basic.cfg", on_line=on_line, workers=1, simulate=1, depth=2, seed=1, timeout=300)
    return st["w"]


def replay(path):
    d = json.load(open(path))
    sig, det = d["sig"], d["detail"]
    kind = sig.get("kind")
    print("replaying %s (%s)" % (path, kind))
    if kind in ("exec-mismatch", "fault-mismatch"):
        w = exec_world()
        case = det["case"]
        resp, cs, doc = execreplay.run_plain(w, case, det.get("engine_cfg") or {})
        mm = execreplay.compare_faults(case, resp, cs, doc) if kind == "fault-mismatch" else execreplay.compare_plain(case, resp, cs)
        print("query:", doc.text)
        print("response:", resp)
        for m in mm:
            print("MISMATCH:", m)
        return 1 if mm else 0
    if kind == "schedule-mismatch":
        w = exec_world()
        mm, info, g = execreplay.run_schedule(w, det["case"], check_serial=det["case"]["nodes"][det["case"]["op"] - 1]["optype"] == "mutation")
        print("query:", g.doc.text)
        print("response:", info.get("resp"))
        for m in mm:
            print("MISMATCH:", m)
        return 1 if mm else 0
    if kind == "multi-mismatch":
        w = exec_world()
        mm, _dev = execreplay.run_multi(w, det["case"])
        for m in mm:
            print("MISMATCH:", m)
        return 1 if mm else 0
    if kind == "trace-rejected" and "record" in det:
        import tracecheck
        rec = det["record"]
        module = "Trace_sched.tla" if "events" in rec else "Trace_resp.tla"
        verdicts, _ = tracecheck.judge(module, module.replace(".tla", ".cfg"), [rec])
        ok, clause = verdicts[rec["tid"]]
        print("recorded execution:", json.dumps(det.get("meta"), default=repr)[:2000])
        print("TLC verdict on the recorded trace: %s %s" % ("accepted" if ok else "REJECTED", clause))
        return 0 if ok else 1
    # other kinds carry the concrete request; show it for manual re-execution
    for k in ("query", "variables", "sdl", "request", "history", "sequence", "mismatches", "response"):
        if k in det:
            print("%s: %s" % (k, json.dumps(det[k], default=repr)[:3000] if not isinstance(det[k], str) else det[k][:3000]))
    print("(re-run the property's check to re-evaluate this case against the current tree)")
    return 1
