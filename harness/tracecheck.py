"""R3 plumbing: write a batch of recorded executions as NDJSON, let TLC judge every
record with a trace specification, read the verdicts back."""
import json
import os
import tempfile

import tlc


def judge(module, cfg, records, timeout=1800, workers=1):
    """records: list of dicts with a unique 'tid'.  Returns (verdicts: tid -> (ok, clause), TLCResult)."""
    fd, path = tempfile.mkstemp(prefix="trace_", suffix=".ndjson")
    with os.fdopen(fd, "w") as f:
        for r in records:
            f.write(json.dumps(r, separators=(",", ":")) + "\n")
    verdicts = {}

    def on_line(rec):
        if rec.get("kind") == "verdict":
            verdicts[rec["tid"]] = (bool(rec["ok"]), rec.get("clause", ""))
    try:
        res = tlc.run(module, cfg, on_line=on_line, workers=workers, timeout=timeout, env={"TRACE_FILE": path})
    finally:
        try:
            os.unlink(path)
        except OSError:
            pass
    missing = [r["tid"] for r in records if r["tid"] not in verdicts]
    if missing:
        raise tlc.TLCError("trace spec %s returned no verdict for %d records (first %r)" % (module, len(missing), missing[:3]))
    return verdicts, res
