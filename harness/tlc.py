"""Running TLC and reading what it prints.

TLC is the decision procedure: MC/Gen configurations check the invariants of the
specification (R1) and print one JSON case per terminal state (R2); Trace
configurations accept or reject recorded executions (R3).  This module only starts
the JVM, streams its output and parses it."""
import json
import os
import re
import shutil
import subprocess
import tempfile
import time

SPEC_DIR = os.path.join(os.path.dirname(os.path.dirname(os.path.abspath(__file__))), "spec")
JAR = "/opt/veriftools/tla/tla2tools.jar"
CP = JAR + ":/opt/veriftools/tla/CommunityModules-deps.jar"


class TLCError(Exception):
    """machinery failure (exit 2), never a property violation"""


class TLCResult:
    def __init__(self):
        self.states = 0
        self.distinct = 0
        self.depth = 0
        self.ok = False
        self.violated = None     # name of a violated invariant / property
        self.error_text = ""
        self.wall = 0.0
        self.coverage = {}       # action name -> (distinct, total)
        self.lines = 0


def java_cmd(workers=1, heap="3g", extra_jvm=()):
    gc = ["-XX:+UseSerialGC"] if workers == 1 else ["-XX:+UseParallelGC", "-XX:ParallelGCThreads=%d" % max(2, min(8, workers))]
    return ["java", "-Xmx" + heap, "-Xss16m"] + gc + list(extra_jvm) + ["-cp", CP, "tlc2.TLC"]


_STATS = re.compile(r"^(\d+) states generated, (\d+) distinct states found")
_SIMSTATS = re.compile(r"^The number of states generated: (\d+)")
_DEPTH = re.compile(r"^The depth of the complete state graph search is (\d+)")
_INV = re.compile(r"^Error: Invariant (\S+) is violated")
_PROP = re.compile(r"^Error: (Temporal properties were violated|Action property (\S+) is violated|Deadlock reached)")
_COV = re.compile(r"^<(\w+) line \d+, col \d+ to line \d+, col \d+ of module (\w+)>: (\d+):(\d+)")


def run(module, cfg, on_line=None, workers=1, simulate=None, depth=None, seed=None, timeout=3600,
        env=None, heap="3g", extra=(), coverage=False, cwd=None):
    """Run TLC on spec/<module>.tla with spec/<cfg>.  Lines that are JSON strings
    (printed with PrintT(ToJson(..))) are decoded and passed to on_line(dict).
    Returns TLCResult.  Raises TLCError on a TLC crash / parse error."""
    meta = tempfile.mkdtemp(prefix="tlcmeta_")
    cmd = java_cmd(workers, heap) + ["-workers", str(workers), "-metadir", meta, "-noGenerateSpecTE",
                                     "-nowarning", "-config", cfg]
    if coverage:
        cmd += ["-coverage", "1"]
    if simulate is not None:
        cmd += ["-simulate", "num=%d" % simulate]
        if depth:
            cmd += ["-depth", str(depth)]
    if seed is not None:
        cmd += ["-seed", str(seed)]
    cmd += list(extra) + [module]
    e = dict(os.environ)
    if env:
        e.update(env)
    res = TLCResult()
    t0 = time.time()
    tail = []
    stopped = False
    proc = subprocess.Popen(cmd, cwd=cwd or SPEC_DIR, stdout=subprocess.PIPE, stderr=subprocess.STDOUT,
                            env=e, text=True, bufsize=1 << 20)
    try:
        for line in proc.stdout:
            if line.startswith('"{'):
                res.lines += 1
                if on_line is not None:
                    try:
                        on_line(json.loads(json.loads(line)))
                    except StopIteration:
                        # the consumer has all the cases it wants (simulation runs only)
                        stopped = True
                        proc.kill()
                        break
                    except json.JSONDecodeError as ex:
                        raise TLCError("unparsable case line from TLC: %s: %r" % (ex, line[:200]))
                continue
            tail.append(line)
            if len(tail) > 400:
                del tail[:200]
            m = _STATS.match(line)
            if m:
                res.states, res.distinct = int(m.group(1)), int(m.group(2))
                continue
            m = _SIMSTATS.match(line)
            if m:
                res.states = res.distinct = int(m.group(1))
                continue
            m = _DEPTH.match(line)
            if m:
                res.depth = int(m.group(1))
                continue
            m = _INV.match(line)
            if m:
                res.violated = m.group(1)
                continue
            m = _PROP.match(line)
            if m:
                res.violated = m.group(2) or m.group(1)
                continue
            m = _COV.match(line)
            if m:
                res.coverage[m.group(1)] = (int(m.group(3)), int(m.group(4)))
            if time.time() - t0 > timeout:
                proc.kill()
                raise TLCError("TLC timeout after %ds on %s/%s" % (timeout, module, cfg))
        proc.wait()
    finally:
        if proc.poll() is None:
            proc.kill()
        shutil.rmtree(meta, ignore_errors=True)
    res.wall = time.time() - t0
    text = "".join(tail)
    res.error_text = text
    if res.violated:
        res.ok = False
        return res
    if stopped:
        res.ok = True
        if not res.states:
            res.states = res.distinct = res.lines
        return res
    if proc.returncode != 0 or ("Error:" in text and "Model checking completed. No error" not in text and simulate is None):
        raise TLCError("TLC failed on %s/%s (rc=%s):\n%s" % (module, cfg, proc.returncode, text[-3000:]))
    res.ok = True
    return res


def sany(module, cwd=None):
    cmd = ["java", "-cp", CP, "tla2sany.SANY", module]
    p = subprocess.run(cmd, cwd=cwd or SPEC_DIR, stdout=subprocess.PIPE, stderr=subprocess.STDOUT, text=True)
    ok = p.returncode == 0 and "Semantic errors" not in p.stdout and "Parse Error" not in p.stdout and "Fatal" not in p.stdout
    return ok, p.stdout
