"""C10 — built-in scalars obey their coercion laws.
R1: the laws of Scalars.tla (TLC, over the whole token universe).  R2: every cell
(scalar x direction x token) x every concrete representative, executed through the
engine (echo fields) and on the scalar objects of the built schema."""
import json
import base, common, genrun, tlc, tokens, render
from base import main_loop

SCALARS = ["Int", "Float", "String", "Boolean", "ID", "Date", "Time", "DateTime"]
SDL = ("\n".join("input Box%s { v: %s! }\ninput BoxN%s { v: %s }" % (s, s, s, s) for s in SCALARS) + "\n"
       + "type Query {\n" + "\n".join("  out%s: %s\n  in%s(a: %s): String\n  inL%s(a: [%s!]): String\n  inO%s(a: Box%s): String\n  inLN%s(a: [%s]): String\n  inON%s(a: BoxN%s): String" % (s, s, s, s, s, s, s, s, s, s, s, s) for s in SCALARS) + "\n}\n")
# the positions an input value of scalar S can sit in besides a bare argument: (name, query template, variables builder, unwrap)
CONTEXTS_IN = [
    ("single-value-for-list-variable", "query ($a: [%(s)s!]) { inL%(s)s(a: $a) }", lambda v: {"a": v}, lambda a: a[0] if isinstance(a, list) and len(a) == 1 else ("NOTWRAPPED", a)),
    ("item-of-list-variable", "query ($a: [%(s)s!]) { inL%(s)s(a: $a) }", lambda v: {"a": [v]}, lambda a: a[0] if isinstance(a, list) and len(a) == 1 else ("NOTWRAPPED", a)),
    ("variable-inside-list-literal", "query ($x: %(s)s!) { inL%(s)s(a: [$x]) }", lambda v: {"x": v}, lambda a: a[0] if isinstance(a, list) and len(a) == 1 else ("NOTWRAPPED", a)),
    ("variable-inside-object-literal", "query ($x: %(s)s!) { inO%(s)s(a: {v: $x}) }", lambda v: {"x": v}, lambda a: a["v"] if isinstance(a, dict) and list(a) == ["v"] else ("NOTWRAPPED", a)),
    ("field-of-object-variable", "query ($a: Box%(s)s) { inO%(s)s(a: $a) }", lambda v: {"a": {"v": v}}, lambda a: a["v"] if isinstance(a, dict) and list(a) == ["v"] else ("NOTWRAPPED", a)),
]
CONTEXTS_LIT = [
    ("single-literal-for-list", "{ inL%(s)s(a: %(lit)s) }", lambda a: a[0] if isinstance(a, list) and len(a) == 1 else ("NOTWRAPPED", a)),
    ("item-of-list-literal", "{ inL%(s)s(a: [%(lit)s]) }", lambda a: a[0] if isinstance(a, list) and len(a) == 1 else ("NOTWRAPPED", a)),
    ("field-of-object-literal", "{ inO%(s)s(a: {v: %(lit)s}) }", lambda a: a["v"] if isinstance(a, dict) and list(a) == ["v"] else ("NOTWRAPPED", a)),
    # the literal as the DEFAULT of a variable that is not provided, the variable used bare and inside list / object literals
    ("default-of-omitted-variable", "query ($x: %(s)s = %(lit)s) { in%(s)s(a: $x) }", lambda a: a),
    ("default-of-omitted-variable-inside-list-literal", "query ($x: %(s)s = %(lit)s) { inLN%(s)s(a: [$x]) }", lambda a: a[0] if isinstance(a, list) and len(a) == 1 else ("NOTWRAPPED", a)),
    ("default-of-omitted-variable-inside-object-literal", "query ($x: %(s)s = %(lit)s) { inON%(s)s(a: {v: $x}) }", lambda a: a["v"] if isinstance(a, dict) and list(a) == ["v"] else ("NOTWRAPPED", a)),
]
FAIL = "FAIL"


class Env:
    def __init__(self):
        t = base.tartiflette()
        self.sn = base.unique_schema_name("sc")
        self.ret = None
        self.got = []
        env = self
        for s in SCALARS:
            def mk(s):
                @t.Resolver("Query.out%s" % s, schema_name=self.sn)
                async def r_out(parent, args, ctx, info):
                    return env.ret

                @t.Resolver("Query.in%s" % s, schema_name=self.sn)
                async def r_in(parent, args, ctx, info):
                    env.got.append(dict(args))
                    return "ok"

                @t.Resolver("Query.inL%s" % s, schema_name=self.sn)
                async def r_inl(parent, args, ctx, info):
                    env.got.append(dict(args))
                    return "ok"

                @t.Resolver("Query.inO%s" % s, schema_name=self.sn)
                async def r_ino(parent, args, ctx, info):
                    env.got.append(dict(args))
                    return "ok"

                @t.Resolver("Query.inLN%s" % s, schema_name=self.sn)
                async def r_inln(parent, args, ctx, info):
                    env.got.append(dict(args))
                    return "ok"

                @t.Resolver("Query.inON%s" % s, schema_name=self.sn)
                async def r_inon(parent, args, ctx, info):
                    env.got.append(dict(args))
                    return "ok"
            mk(s)
        self.eng, _ = base.cook(SDL, self.sn)
        self.schema = self.eng._schema

    def run(self, q, variables=None):
        self.got = []
        try:
            return main_loop().run(self.eng.execute(q, variables=variables))
        except BaseException as e:
            return {"__raised__": repr(e)}


def observe(env, cell, k):
    """-> ('FAIL' | ('OK', value), response)"""
    s, d, t = cell["s"], cell["dir"], cell["t"]
    if d == "out":
        env.ret = tokens.REPS[t][k]
        resp = env.run("{ out%s }" % s)
        if not isinstance(resp, dict) or "__raised__" in resp:
            return ("RAISED", resp), resp
        v = (resp.get("data") or {}).get("out%s" % s)
        if resp.get("errors"):
            return FAIL if v is None else ("BOTH", v), resp
        return ("OK", v), resp
    if d == "in":
        resp = env.run("query ($a: %s) { in%s(a: $a) }" % (s, s), {"a": tokens.REPS[t][k]})
    else:
        resp = env.run("{ in%s(a: %s) }" % (s, tokens.literal_text(cell["k"], t, k)))
    if not isinstance(resp, dict) or "__raised__" in resp:
        return ("RAISED", resp), resp
    if resp.get("errors"):
        return (FAIL if not env.got else ("BOTH", env.got)), resp
    if len(env.got) != 1 or "a" not in env.got[0]:
        return ("NOARG", env.got), resp
    return ("OK", env.got[0]["a"]), resp


def observe_contexts(env, cell, k):
    """the same input value at the other positions a scalar value can sit in: each must give the bare cell's outcome"""
    s, d, t = cell["s"], cell["dir"], cell["t"]
    out = []
    if d == "in":
        rep = tokens.REPS[t][k]
        if rep is None:
            return out
        # (a list given for a list-typed variable is that list, not a single value)
        runs = [(name, q % {"s": s}, mkvars(rep), unwrap) for name, q, mkvars, unwrap in CONTEXTS_IN
                if not (name == "single-value-for-list-variable" and isinstance(rep, list))]
    elif d == "lit":
        lit = tokens.literal_text(cell["k"], t, k)
        if lit == "null":
            return out
        runs = [(name, q % {"s": s, "lit": lit}, None, unwrap) for name, q, unwrap in CONTEXTS_LIT
                if not (name == "single-literal-for-list" and cell["k"] == "ListValue")]
    else:
        return out
    for name, q, variables, unwrap in runs:
        resp = env.run(q, variables)
        if not isinstance(resp, dict) or "__raised__" in resp:
            obs = ("RAISED", resp)
        elif resp.get("errors"):
            obs = FAIL if not env.got else ("BOTH", env.got)
        elif len(env.got) != 1 or "a" not in env.got[0]:
            obs = ("NOARG", env.got)
        else:
            v = unwrap(env.got[0]["a"])
            obs = ("OK", v) if not (isinstance(v, tuple) and v and v[0] == "NOTWRAPPED") else ("NOTWRAPPED", v[1])
        out.append((name, obs, resp))
    return out


def direct(env, cell, k):
    """the same cell on the scalar object attached to the built schema"""
    s, d, t = cell["s"], cell["dir"], cell["t"]
    sc = env.schema.find_type(s)
    try:
        if d == "out":
            return ("OK", sc.coerce_output(tokens.REPS[t][k]))
        if d == "in":
            return ("OK", sc.coerce_input(tokens.REPS[t][k]))
    except Exception:
        return FAIL
    return None


def job(j):
    if j.get("r3"):
        import scalartrace
        return scalartrace.job(j)
    env = Env()
    st = {"n": 0, "viol": [], "distinct": set(), "samples": [], "cells": 0}

    def judge(cell, k, obs, how, resp=None):
        allowed = cell["allowed"]
        if obs == FAIL:
            ok = FAIL in allowed
        elif obs[0] == "OK":
            ok = any(a != FAIL and tokens.matches(obs[1], a, cell["t"], k) for a in allowed)
        else:
            ok = False
        if not ok and len(st["viol"]) < 400:
            shown = obs if obs == FAIL else (obs[0], repr(obs[1]), type(obs[1]).__name__)
            genrun.add_viol(st["viol"], ({"kind": "scalar-cell", "scalar": cell["s"], "dir": cell["dir"], "lit": cell["k"], "token": cell["t"], "how": how},
                               {"cell": cell, "representative": repr(tokens.REPS.get(cell["t"], tokens.LIT_TEXT.get(cell["t"]))[k % tokens.nreps(cell["t"])]),
                                "observed": shown, "response": resp}))

    def on_line(cell):
        if cell.get("kind") != "cell":
            return
        st["cells"] += 1
        canonical = (cell["dir"] != "lit" and cell["allowed"] == [cell["t"]])
        for k in range(tokens.nreps(cell["t"])):
            st["n"] += 1
            obs, resp = observe(env, cell, k)
            judge(cell, k, obs, "engine", resp)
            for name, cobs, cresp in observe_contexts(env, cell, k):
                st["n"] += 1
                judge(cell, k, cobs, name, cresp)
            dobs = direct(env, cell, k)
            if dobs is not None:
                st["n"] += 1
                judge(cell, k, dobs, "scalar-object")
            if not canonical:
                st["distinct"].add((cell["s"], cell["dir"], cell["k"], cell["t"], k))
        if len(st["samples"]) < 4 and not canonical and st["cells"] % 41 == 0:
            st["samples"].append({"cell": cell, "representatives": [repr(x) for x in tokens.REPS.get(cell["t"], tokens.LIT_TEXT.get(cell["t"], []))]})

    res = tlc.run("MC_scalars.tla", "MC_scalars.cfg", on_line=on_line, workers=1, timeout=600)
    return {"job": j, "tlc": [genrun.tlc_summary("MC_scalars.cfg", res)], "evaluations": st["n"], "distinct": [list(map(str, d)) for d in st["distinct"]],
            "samples": st["samples"], "violations": st["viol"], "extra": {"cells": st["cells"]}}


def main(argv):
    rep = common.Report("C10")
    rep.rule = ("cases = (scalar, direction out/in/literal, value token, concrete representative) executed through the engine and on the scalar "
                "object; distinct_nontrivial = distinct cells x representatives other than the canonical in-kind value")
    rep.assumptions = ["numeric magnitudes are abstract token classes with finitely many concrete representatives (harness/tokens.py)",
                       "Date / Time / DateTime: two well-formed representatives each (whole seconds), malformed inputs refused", "stand-in parser"]
    thorough = common.tier() == "thorough"
    r3 = [{"r3": True, "seed": common.seed() * 100 + 31 + k, "n": 2500 if thorough else 400} for k in range(8 if thorough else 4)]
    results = genrun.run_jobs("checks.c10", "job", [{"cfg": "MC_scalars.cfg"}] + r3)
    bad = genrun.merge(rep, results)
    rc = rep.finish()
    if bad:
        for b in bad:
            print("MACHINERY-ERROR %s: %s" % (b["job"], b["machinery_error"][-2000:]))
        return 2
    return rc
