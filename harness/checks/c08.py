"""C08 — results do not depend on resolver scheduling or concurrency settings.
R1: R1_Sched + Termination (TLC, MC_sched).  R2: every complete schedule TLC prints is
driven through the real engine under the controlled event loop."""
import os
import common, genrun, tlc, render
from execworld import World
import execreplay

FLAGS = ["cc", "cs", "sc", "ss", "mc", "ms"]
QUICK = ["MC_sched_q_%s.cfg" % f for f in FLAGS] + ["MC_sched_f_%s.cfg" % f for f in FLAGS] + ["MC_sched_f2_cc.cfg", "MC_sched_f2_mc.cfg", "MC_sched_a_cc.cfg", "MC_sched_a_ms.cfg", "MC_sched_p_cc.cfg", "MC_sched_p_ss.cfg"]
THOROUGH = QUICK
SERIAL = False
PID = "C08"
MODULE = "MC_sched.tla"


def job(j):
    if j.get("kind") == "introspect":
        return introspect_job(j)
    if j.get("kind") == "long":
        return long_job(j)
    if j.get("r3"):
        import schedtrace
        return schedtrace.job(j)
    cfg = j["cfg"]
    serial = j.get("serial", False)
    st = {"world": None, "n": 0, "viol": [], "distinct": set(), "samples": [], "dev": 0, "multi": 0}
    if j.get("r1only"):
        res = tlc.run(MODULE, cfg, workers=j.get("workers", 4), timeout=3000)
        return {"job": j, "tlc": [genrun.tlc_summary(cfg, res)], "evaluations": 0, "distinct": [], "samples": [], "violations": [],
                "extra": {"liveness_checked": 1 if res.ok else 0}}

    def on_line(rec):
        if rec["kind"] == "schema":
            if st["world"] is None:
                st["world"] = World(rec["types"], rec["roots"])
            return
        st["n"] += 1
        rec["argsync"] = (st["n"] % 2 == 1)       # third concurrency option: arguments coerced with gather / one by one
        mm, info, g = execreplay.run_schedule(st["world"], rec, check_serial=serial)
        st["dev"] += 1 if info["deviations"] else 0
        if info["max_pending"] >= 2:
            st["multi"] += 1
            st["distinct"].add(hash((g.doc.text, tuple(map(tuple, rec["overlay"] and [p for p, _ in rec["overlay"]])), tuple(tuple(h["rel"]) for h in rec["hist"]), cfg)))
        if len(st["samples"]) < 1 and info["max_pending"] >= 2 and len(rec["hist"]) >= 3:
            st["samples"].append({"query": g.doc.text, "faults": rec["overlay"], "seq_fields": rec["seq"], "list_concurrently": rec["lconc"],
                                  "schedule": [h["rel"] for h in rec["hist"]], "pending_after_each_release": [h["pending"] for h in rec["hist"]],
                                  "response": info.get("resp")})
        if mm and len(st["viol"]) < 400:
            genrun.add_viol(st["viol"], ({"kind": "schedule-mismatch", "config": cfg, "first": mm[0][:140]},
                               {"case": rec, "query": g.doc.text, "mismatches": mm, "response": info.get("resp")}))

    res = tlc.run(MODULE, cfg, on_line=on_line, workers=1, timeout=3000)
    return {"job": j, "tlc": [genrun.tlc_summary(cfg, res)], "evaluations": st["n"], "distinct": list(st["distinct"]),
            "samples": st["samples"], "violations": st["viol"],
            "extra": {"schedules_with_model_deviation": st["dev"], "schedules_with_2plus_pending": st["multi"]}}


def long_job(j):
    """long lists (40 items of objects with object sub-fields) under random schedules and every flag set: execute terminates,
    data is the big-step data"""
    import random
    from schedtrace import FLAGSETS
    rng = random.Random(j["seed"])
    st = {"world": None, "n": 0, "viol": [], "distinct": set()}

    def on_line(rec):
        if rec["kind"] == "schema":
            if st["world"] is None:
                st["world"] = World(rec["types"], rec["roots"])
            return
        if not any(o.get("n", 0) >= 40 for _p, o in rec["overlay"]):
            return
        w = st["world"]
        all_fields = sorted({f for td in w.types.values() if td["kind"] == "OBJECT" for f in td["fields"]})
        for fl in FLAGSETS:
            st["n"] += 1
            seq = all_fields if fl["seq"] == "ALL" else fl["seq"]
            c = dict(rec, seq=seq, lconc=fl["lconc"], argsync=bool(st["n"] % 2))
            g = execreplay.GatedRun(w, c, execreplay.engine_cfg_for(c))
            g.start()
            steps = 0
            mm = []
            while not g.done() and steps < 5000:
                pend = sorted(g.pending())
                if not pend:
                    mm.append("deadlock: execute not finished and no resolver pending (after %d releases)" % steps)
                    break
                g.release(pend[rng.randrange(len(pend))])
                steps += 1
            if not mm:
                resp = g.result()
                mm = execreplay.compare_faults(c, resp, g.cs, g.doc)
            else:
                for f in g.cs.gates.values():
                    if not f.done():
                        f.cancel()
                g.task.cancel()
                g.loop.idle()
            w.case = None
            st["distinct"].add(hash((g.doc.text, repr(seq), fl["lconc"])))
            if mm:
                genrun.add_viol(st["viol"], ({"kind": "schedule-mismatch", "config": "MC_exec_long.cfg", "first": mm[0][:140]}, {"case": {k: v for k, v in rec.items() if k != "calls"}, "query": g.doc.text, "mismatches": mm[:5]}))

    res = tlc.run("MC_exec.tla", "MC_exec_long.cfg", on_line=on_line, workers=1, timeout=1500)
    return {"job": j, "tlc": [genrun.tlc_summary("MC_exec_long.cfg", res)], "evaluations": st["n"], "distinct": list(st["distinct"]), "samples": [], "violations": st["viol"],
            "extra": {"long_list_schedules": st["n"]}}


INTRO_SDL = """
directive @vis(n: Int) on FIELD_DEFINITION | ARGUMENT_DEFINITION | ENUM_VALUE | INPUT_FIELD_DEFINITION | OBJECT | ENUM
enum E @vis(n: 6) { X @vis(n: 1)  Y }
input In { a: Int @vis(n: 2)  b: Int = 3 }
type T @vis(n: 3) { s(x: Int @vis(n: 4), y: Int): String @vis(n: 5)  t: T  old: Int @deprecated }
type Query { o: T  e(i: In, v: E): E  l: [T!] }
"""
INTRO_Q = """{ __schema { types { kind name fields(includeDeprecated: true) { name args { name defaultValue type { kind name } } type { kind name ofType { kind name } } }
  inputFields { name defaultValue } enumValues(includeDeprecated: true) { name } } directives { name args { name } } }
  t: __type(name: "T") { name fields { name } }  i: __type(name: "In") { inputFields { name } } }"""


def introspect_job(j):
    """Introspection requests are requests too: with a directive whose on_introspection hook passes, hides, raises (a plain
    exception) or suspends depending on the request's context, the answer must be the same under the 2x2x2 concurrency options."""
    import asyncio
    import json as _json
    import base
    from base import main_loop, unique_schema_name
    from tartiflette.resolver.default import sync_arguments_coercer
    t = base.tartiflette()
    engines = []
    for lc in (True, False):
        for pc in (True, False):
            for sync in (False, True):
                sn = unique_schema_name("intro")

                @t.Directive("vis", schema_name=sn)
                class Vis:
                    async def on_introspection(self, directive_args, next_directive, introspected_element, ctx, info):
                        n = directive_args.get("n")
                        ctx = ctx or {}
                        for _ in range(ctx.get("yield", {}).get(n, 0)):
                            await asyncio.sleep(0)
                        if n in ctx.get("hide", ()):
                            return None
                        if n in ctx.get("boom", ()):
                            raise KeyError("vis")
                        return await next_directive(introspected_element, ctx, info)
                kw = {"coerce_list_concurrently": lc, "coerce_parent_concurrently": pc}
                if sync:
                    kw["custom_default_arguments_coercer"] = sync_arguments_coercer
                engines.append(((lc, pc, sync), main_loop().run(t.create_engine(INTRO_SDL, schema_name=sn, **kw))))
    contexts = [{}, {"hide": (1, 2, 5)}, {"hide": (3,)}, {"yield": {1: 2, 4: 1, 5: 3}}, {"boom": (2,)}, {"boom": (4,)}, {"boom": (5,), "yield": {5: 1}}, {"boom": (1, 6)}, {"boom": (3,)}]
    viol, n = [], 0
    for ctx in contexts:
        answers = []
        for flags, eng in engines:
            n += 1
            try:
                resp = main_loop().run(eng.execute(INTRO_Q, context=dict(ctx)))
            except BaseException as e:
                resp = {"__raised__": repr(e)}
            try:
                # (which errors are reported may differ: sequential execution stops at the first failure that nulls `data`; C08 speaks of `data` and of nulls being explained)
                canon = _json.dumps({"data": resp.get("data"), "has_errors": bool(resp.get("errors"))}, sort_keys=True, allow_nan=False)
            except (TypeError, ValueError) as e:
                canon = "NOT-JSON: %r" % (resp,)
            answers.append((flags, canon))
        ref = answers[0][1]
        for flags, canon in answers:
            if canon != ref or canon.startswith("NOT-JSON") or "__raised__" in canon:
                genrun.add_viol(viol, ({"kind": "introspection-differs-by-concurrency", "context": _json.dumps(ctx, sort_keys=True, default=list), "first": ("not JSON / raised" if canon.startswith("NOT-JSON") or "__raised__" in canon else "differs from (True, True, False)")},
                                       {"flags": list(flags), "answer": canon[:3000], "reference": ref[:3000]}))
    return {"job": j, "tlc": [], "evaluations": n, "distinct": [], "samples": [], "violations": viol, "extra": {"introspection_requests_under_8_concurrency_options": n}}


def main(argv, pid=PID, cfgs=None, serial=False):
    rep = common.Report(pid)
    rep.rule = ("cases = (request, concurrency flags, complete schedule): every order in which the pending resolvers can be released, "
                "enumerated by TLC; distinct_nontrivial = distinct (query, faults, schedule, flags) with >= 2 resolvers pending at once")
    rep.assumptions = ["stand-in parser", "the scheduler's only nondeterminism is which suspended resolver resumes next (single-threaded asyncio; controlled loop)",
                       "6 flag sets: parent concurrency all/none/mixed x list concurrency on/off; argument coercer gather/sync covered by C02"]
    cfgs = cfgs or (THOROUGH if common.tier() == "thorough" else QUICK)
    jobs = [{"cfg": c, "serial": serial} for c in cfgs]
    thorough = common.tier() == "thorough"
    if pid == "C08":
        jobs.append({"cfg": "MC_sched_live.cfg", "r1only": True})
        jobs.append({"kind": "introspect"})
        jobs.append({"kind": "long", "seed": common.seed() + 77})
    nr3 = (8 if thorough else 3) if pid == "C08" else (4 if thorough else 2)
    for k in range(nr3):
        jobs.append({"r3": True, "seed": common.seed() * 1000 + k + (1 if pid == "C08" else 501), "behaviours": 1200 if thorough else 400,
                     "max_cases": 400 if thorough else 60, "schedules_per_case": 6 if thorough else 3, "mutations_only": pid == "C09"})
    results = genrun.run_jobs("checks.c08", "job", jobs)
    bad = genrun.merge(rep, results)
    rc = rep.finish()
    if bad:
        for b in bad:
            print("MACHINERY-ERROR %s: %s" % (b["job"], b["machinery_error"][-2000:]))
        return 2
    return rc
