"""C17 — engines registered under different schema names are independent.
R1: Independent / NoLeak (TLC, Registry.tla).  R2: every interleaving of the registration and
cook steps of 2-3 bundles with overlapping type / field / scalar / directive / subscription
names is executed in one process; each engine's probe answers must name its own bundle only.
A few histories are also run in fresh Python processes with one bundle on the implicit
"default" schema name."""
import json
import os
import subprocess
import sys
import common, genrun, tlc
import base
from base import main_loop, unique_schema_name

SDL_T = """
scalar Sc
scalar Hd
directive @d on FIELD_DEFINITION
interface P { n: String }
type A implements P { n: String }
type B implements P { n: String }
type C implements P { n: String }
input In { f: Int = %(k)d  g: Sc }
enum E { COMMON  X%(k)d }
type Query { v: String  sc: Sc  hd: Hd  dv: String @d  p: P  p2: P  q(i: In, e: E): String  ql(i: In): String  w%(wargs)s: String }
type Subscription { ev: String }
"""


def sdl_of(k):
    # the same field with a required argument in odd bundles, with optional arguments only in even ones
    return SDL_T % {"k": k, "wargs": "(a: Int!)" if k % 2 else "(a: Int, b: Int)"}
TYPES = ["A", "B", "C"]


def reg_a(t, k, sn):
    kw = {} if sn is None else {"schema_name": sn}

    @t.Resolver("Query.v", **kw)
    async def rv(parent, args, ctx, info):
        # user code may keep and modify the dictionary it receives: it must be this call's own
        stale = "__scribbled__" in args
        args["__scribbled__"] = k
        return "R%d" % k if not stale else "R%d (args already modified by bundle %r)" % (k, args.get("__scribbled__"))

    @t.Resolver("Query.sc", **kw)
    async def rsc(parent, args, ctx, info):
        return "x"

    @t.Resolver("Query.ql", **kw)
    async def rql(parent, args, ctx, info):
        return (args.get("i") or {}).get("g")

    @t.Resolver("Query.w", **kw)
    async def rw(parent, args, ctx, info):
        return "W%d" % k

    @t.Resolver("Query.hd", **kw)
    async def rhd(parent, args, ctx, info):
        return "x"

    @t.Resolver("Query.dv", **kw)
    async def rdv(parent, args, ctx, info):
        return "y"

    @t.Resolver("Query.p", **kw)
    async def rp(parent, args, ctx, info):
        return {"n": "n"}

    # a per-field type resolver (the `type_resolver` argument of @Resolver) for a second abstract field
    def field_tr(result, ctx, info, abstract_type):
        return TYPES[(k % 3)]

    @t.Resolver("Query.p2", type_resolver=field_tr, **kw)
    async def rp2(parent, args, ctx, info):
        return {"n": "n"}

    @t.Resolver("Query.q", **kw)
    async def rq(parent, args, ctx, info):
        return "%s/%s" % ((args.get("i") or {}).get("f"), args.get("e"))

    @t.TypeResolver("P", **kw)
    def tr(result, ctx, info, abstract_type):
        return TYPES[k - 1]


class Handle:
    """ONE scalar class registered for every schema name of a history through stacked decorators
    (`@Scalar("Hd", schema_name=a) @Scalar("Hd", schema_name=b) class Handle`): each registration gets its own instance,
    so each engine numbers its handles from 1 whatever the other engines did"""
    def __init__(self):
        self.count = 0

    def coerce_output(self, v):
        self.count += 1
        return "h%d" % self.count

    def coerce_input(self, v):
        return v

    def parse_literal(self, ast):
        return getattr(ast, "value", None)


def register_shared(t, schema_names):
    cls = Handle
    for sn in schema_names:
        cls = (t.Scalar("Hd") if sn is None else t.Scalar("Hd", schema_name=sn))(cls)


class StatefulD:
    def __init__(self, k):
        self.k = k

    async def on_field_execution(self, directive_args, next_resolver, parent, args, ctx, info):
        return "%s|D%d" % (await next_resolver(parent, args, ctx, info), self.k)


def reg_b(t, k, sn):
    kw = {} if sn is None else {"schema_name": sn}

    @t.Scalar("Sc", **kw)
    class Sc:
        def coerce_output(self, v):
            return "S%d:%s" % (k, v)

        def coerce_input(self, v):
            return v

        def parse_literal(self, ast):
            # each bundle's scalar only accepts literals ending with the bundle's own number
            from tartiflette.constants import UNDEFINED_VALUE
            v = getattr(ast, "value", None)
            return "L%d:%s" % (k, v) if isinstance(v, str) and v.endswith(str(k)) else UNDEFINED_VALUE

    # one directive class for every bundle, a separate stateful instance per schema name
    t.Directive("d", **kw)(StatefulD(k))

    @t.Subscription("Subscription.ev", **kw)
    async def src(parent, args, ctx, info):
        yield {"ev": "E%d" % k}


TWIN_SDL = """
directive @tw(n: Int) on OBJECT | ENUM | SCALAR | FIELD_DEFINITION
scalar Sw
enum Ew { A }
type Query { a: Int  e: Ew  s: Sw }
extend type Query @tw(n: 1) { b: Int @tw(n: 2) }
extend enum Ew @tw(n: 3) { B }
extend scalar Sw @tw(n: 4)
"""


def twin_engines(t, tag):
    """two engines under different names from byte-identical SDL whose extensions add directives: both cook, both answer"""
    out = []
    for k in (1, 2):
        sn = unique_schema_name("twin%s" % tag)

        @t.Directive("tw", schema_name=sn)
        class Tw:
            pass

        @t.Scalar("Sw", schema_name=sn)
        class Sw:
            def coerce_output(self, v):
                return v

            def coerce_input(self, v):
                return v

            def parse_literal(self, ast):
                return getattr(ast, "value", None)

        @t.Resolver("Query.b", schema_name=sn)
        async def rb(parent, args, ctx, info):
            return k
        try:
            eng = main_loop().run(t.create_engine(TWIN_SDL, schema_name=sn))
            r = main_loop().run(eng.execute("{ b }"))
            if r != {"data": {"b": k}}:
                out.append("twin engine %d (identical SDL, other schema name) answers %r" % (k, r))
        except BaseException as e:
            out.append("twin engine %d (identical SDL, other schema name) does not cook: %r" % (k, e))
        try:
            from tartiflette.schema.registry import SchemaRegistry
            SchemaRegistry._schemas.pop(sn, None)
        except Exception:
            pass
    # two engines refusing introspection: each refusal names its own field (response key, position in its own text)
    import introworld
    e1, e2 = introworld.cook(), introworld.cook()
    for eng, k in ((e1, 1), (e2, 0), (e1, 3), (e2, 2), (e1, 4)):
        text, key, token = introworld.REFUSED[k]
        try:
            resp = main_loop().run(eng.execute(text))
        except BaseException as e:
            resp = {"__raised__": repr(e)}
        out.extend("refusing engines: " + m for m in introworld.check_refusal(text, key, token, resp))
    # a bundle that cannot be cooked alone (a directive hook that is not awaitable) cannot be cooked after other engines either
    sn = unique_schema_name("twinbad%s" % tag)

    @t.Directive("tw", schema_name=sn)
    class TwBad:
        def on_field_execution(self, directive_args, next_resolver, parent, args, ctx, info):
            return None

    @t.Scalar("Sw", schema_name=sn)
    class Sw2:
        def coerce_output(self, v):
            return v

        def coerce_input(self, v):
            return v

        def parse_literal(self, ast):
            return getattr(ast, "value", None)
    try:
        main_loop().run(t.create_engine(TWIN_SDL, schema_name=sn))
        out.append("a bundle with a non-awaitable directive hook cooks when other engines were cooked before it")
    except BaseException:
        pass
    try:
        from tartiflette.schema.registry import SchemaRegistry
        SchemaRegistry._schemas.pop(sn, None)
    except Exception:
        pass
    return out


def make_coercer(k):
    async def coercer(exception, error):
        # the documented way of enriching an error: complete its extensions in place
        error.setdefault("extensions", {})
        if isinstance(error["extensions"], dict):
            error["extensions"]["servedBy"] = error["extensions"].get("servedBy", []) + [k]
        return error
    return coercer


def probe(eng, k):
    loop = main_loop()
    bad = [loop.run(eng.execute(q)) for q in ("{ nope }", "{ v(zz: 1) }", "{ nope }")]
    served = [[(e.get("extensions") or {}).get("servedBy") for e in (r.get("errors") or [])] for r in bad]
    r = loop.run(eng.execute("{ v sc dv p { __typename } p2 { __typename } }"))
    r2 = loop.run(eng.execute("query ($i: In, $e: E) { q(i: $i, e: $e) }", variables={"i": {}, "e": "X%d" % k}))
    hd = [(loop.run(eng.execute("{ hd }")).get("data") or {}).get("hd") for _ in range(2)]
    r3 = loop.run(eng.execute("{ w(a: 1) }" if k % 2 else "{ w }"))
    # a custom scalar literal nested in an input object literal: which bundles' literals does this engine accept?
    lit = []
    for b in (1, 2, 3):
        rl = loop.run(eng.execute('{ ql(i: {g: "v%d"}) }' % b))
        lit.append((rl.get("data") or {}).get("ql") if not rl.get("errors") else None)

    async def first():
        agen = eng.subscribe("subscription { ev }")
        try:
            return await agen.__anext__()
        finally:
            await agen.aclose()
    s = loop.run(first())
    d = r.get("data") or {}
    return {"resolvers": d.get("v"), "scalars": d.get("sc"), "directives": d.get("dv"),
            "type_resolvers": (d.get("p") or {}).get("__typename"), "subscriptions": (s.get("data") or {}).get("ev"),
            "sdl": "%s|%s" % ((r2.get("data") or {}).get("q"), (r3.get("data") or {}).get("w")), "shared_scalar_class": hd, "errors_served_by": served, "scalar_literals_in_input_objects": lit, "field_type_resolver": (d.get("p2") or {}).get("__typename"),
            "errors": (r.get("errors") or []) + (s.get("errors") or []) + (r2.get("errors") or []) + (r3.get("errors") or [])}


def expected(kind, k):
    return {"resolvers": "R%d" % k, "scalars": "S%d:x" % k, "directives": "y|D%d" % k, "type_resolvers": TYPES[k - 1], "subscriptions": "E%d" % k, "sdl": "%d/X%d|W%d" % (k, k, k)}[kind]


def run_history(steps, use_default_for=None, tag=""):
    """-> {bundle: probe answers}"""
    t = base.tartiflette()
    names = {}
    engines = {}
    for b, _s in steps:
        if b not in names:
            names[b] = None if b == use_default_for else unique_schema_name("reg%s" % tag)
    register_shared(t, [names[b] for b in sorted(names)])
    for b, s in steps:
        sn = names[b]
        if s == "regA":
            reg_a(t, b, sn)
        elif s == "regB":
            reg_b(t, b, sn)
        else:
            kw = {} if sn is None else {"schema_name": sn}
            engines[b] = main_loop().run(t.create_engine(sdl_of(b), error_coercer=make_coercer(b), **kw))
    out = {b: probe(e, b) for b, e in engines.items()}
    # forget the names (the registry is process-global and never shrinks by itself)
    try:
        from tartiflette.schema.registry import SchemaRegistry
        for sn in names.values():
            SchemaRegistry._schemas.pop(sn, None)
    except Exception:
        pass
    return out


def judge(rec, answers, how):
    mm = []
    for i, exp in enumerate(rec["answers"], 1):
        got = answers.get(i) or answers.get(str(i))
        if got is None:
            mm.append("%s: engine of bundle %d missing" % (how, i))
            continue
        if got.get("errors"):
            mm.append("%s: bundle %d probe errors %r" % (how, i, got["errors"][:2]))
        if exp.get("resolvers") and len(exp["resolvers"]) == 1 and got.get("shared_scalar_class") != ["h1", "h2"]:
            mm.append("%s: engine %d numbers the handles of the scalar class shared through stacked decorators %r, expected ['h1', 'h2']" % (how, i, got.get("shared_scalar_class")))
        if got.get("errors_served_by") is not None and got["errors_served_by"] != [[[i]], [[i]], [[i]]]:
            mm.append("%s: errors of engine %d were enriched by %r, expected only by its own error coercer [[[%d]], [[%d]], [[%d]]]" % (how, i, got["errors_served_by"], i, i, i))
        if exp.get("scalars") and len(exp["scalars"]) == 1 and got.get("scalar_literals_in_input_objects") is not None:
            o = exp["scalars"][0]
            wantl = ["L%d:v%d" % (o, b) if b == o else None for b in (1, 2, 3)]
            if got["scalar_literals_in_input_objects"] != wantl:
                mm.append("%s: engine %d accepts the scalar literals %r inside input object literals, expected %r (scalar of bundle %d)" % (how, i, got["scalar_literals_in_input_objects"], wantl, o))
        for kind, owners in exp.items():
            want = expected(kind, owners[0]) if len(owners) == 1 else None
            if got.get(kind) != want:
                mm.append("%s: engine %d answers %r for %s, expected %r" % (how, i, got.get(kind), kind, want))
            if kind == "resolvers" and len(owners) == 1 and got.get("field_type_resolver") != TYPES[owners[0] % 3]:
                # the per-field type resolver is registered together with the resolvers of the bundle
                mm.append("%s: engine %d resolves p2 as %r, expected %r (per-field type resolver of its own bundle)" % (how, i, got.get("field_type_resolver"), TYPES[owners[0] % 3]))
    return mm


def job(j):
    cfg = j["cfg"]
    st = {"n": 0, "viol": [], "distinct": set(), "samples": [], "fresh": 0}

    def on_line(rec):
        st["n"] += 1
        steps = [(b, s) for b, s in rec["steps"]]
        bs = [b for b, _ in steps]
        switches = sum(1 for a, b in zip(bs, bs[1:]) if a != b)
        if switches >= 2:
            st["distinct"].add(json.dumps(rec["steps"]))
        mm = judge(rec, run_history(steps), "one process")
        if st["n"] % 7 == 1:
            mm += twin_engines(base.tartiflette(), "h")
        if j.get("fresh_every") and st["n"] % j["fresh_every"] == 1:
            st["fresh"] += 1
            env = dict(os.environ)
            p = subprocess.run([sys.executable, "-c", "import sys, json; sys.path[:0] = %r; import base; from checks import c17; "
                                "print(json.dumps(c17.run_history(%r, use_default_for=1)))" % ([os.path.dirname(os.path.dirname(os.path.abspath(__file__))), base.REPO], steps)],
                               stdout=subprocess.PIPE, stderr=subprocess.PIPE, text=True, env=env, timeout=120)
            try:
                ans = json.loads(p.stdout.strip().splitlines()[-1])
                mm += judge(rec, ans, "fresh process, bundle 1 on the implicit default name")
            except Exception:
                mm.append("fresh process run failed: %s" % (p.stderr[-400:],))
        if len(st["samples"]) < 1 and switches >= 4:
            st["samples"].append({"history": rec["steps"], "expected_owner_per_engine": rec["answers"]})
        if mm and len(st["viol"]) < 400:
            genrun.add_viol(st["viol"], ({"kind": "registry-leak", "first": mm[0][:120]}, {"history": rec["steps"], "mismatches": mm}))
            if genrun.enough(st["viol"], "C17"):
                raise StopIteration

    res = tlc.run("MC_registry.tla", cfg, on_line=on_line, workers=1, timeout=1500)
    return {"job": j, "tlc": [genrun.tlc_summary(cfg, res)], "evaluations": st["n"], "distinct": list(st["distinct"]),
            "samples": st["samples"], "violations": st["viol"], "extra": {"histories_also_run_in_a_fresh_process": st["fresh"]}}


def main(argv):
    rep = common.Report("C17")
    rep.rule = ("cases = every interleaving of the steps (register resolvers + type resolver / register scalar + directive + subscription / cook) of 2 and 3 bundles "
                "sharing all type, field, scalar, directive and subscription names; distinct_nontrivial = histories that switch bundle at least twice")
    rep.assumptions = ["histories run in one process under unique schema names; a sample is re-run in fresh processes with bundle 1 on the implicit \"default\" name",
                       "4 bundles are not enumerated (34650 x 4 cooks); 2 and 3 are exhaustive"]
    thorough = common.tier() == "thorough"
    jobs = [{"cfg": "MC_registry_2.cfg", "fresh_every": 5}, {"cfg": "MC_registry_3.cfg", "fresh_every": 60 if thorough else 400}]
    results = genrun.run_jobs("checks.c17", "job", jobs)
    bad = genrun.merge(rep, results)
    rc = rep.finish()
    if bad:
        for b in bad:
            print("MACHINERY-ERROR %s: %s" % (b["job"], b["machinery_error"][-2000:]))
        return 2
    return rc
