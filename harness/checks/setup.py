"""./check setup — MANIFEST.setup_cmd: offline, files on disk only."""
import glob, os, subprocess, sys
import common, tlc


def main(argv):
    ok = True
    for d in ("evidence", "replays", "out"):
        os.makedirs(os.path.join(common.VERIF, d), exist_ok=True)
    # configs are generated from one table
    subprocess.check_call([sys.executable, os.path.join(tlc.SPEC_DIR, "mkcfg.py")])
    try:
        import hypothesis  # noqa: F401
    except ImportError:
        subprocess.call(["/venv/bin/pip", "install", "--no-index", "--find-links", "/opt/veriftools/wheels", "hypothesis"])
    mods = sorted(glob.glob(os.path.join(tlc.SPEC_DIR, "MC_*.tla")) + glob.glob(os.path.join(tlc.SPEC_DIR, "Trace_*.tla")))
    for m in mods:
        good, out = tlc.sany(os.path.basename(m))
        print("SANY %-24s %s" % (os.path.basename(m), "ok" if good else "FAILED"))
        if not good:
            print(out[-2000:])
            ok = False
    try:
        import tartiflette  # noqa: F401
        print("tartiflette importable with the stand-in parser: ok")
    except Exception as e:
        print("cannot import tartiflette: %r" % (e,))
        ok = False
    return 0 if ok else 2
