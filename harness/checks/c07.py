"""C07 — documents breaking a supported validation rule are refused, nothing runs.
C06 — valid documents are never refused by validation (same generator, kept seeds).
R1: R1_SeedsValid / R1_RewritesInvalid (TLC, Validation.tla via MC_valid).
R2: every rewritten document is sent to the engine: data null, errors, zero resolver calls."""
import json
import common, genrun, tlc, render
from base import main_loop
from execworld import World, CaseState
import execreplay

RULE_TAGS = None


def default_vars(nodes):
    out = {}
    for n in nodes:
        for vd in n.get("vdefs") or []:
            named = vd["type"][-1]
            base_v = {"Boolean": True, "Int": 1, "String": "x", "Float": 1.5, "ID": "i"}.get(named)
            t = vd["type"]
            v = base_v
            for w in reversed(t[:-1]):
                if w == "L":
                    v = [v]
            out[vd["name"]] = v
    return out


def first_op_name(nodes):
    ops = [n for n in nodes if n["k"] == "OP"]
    return ops[0]["name"] or None if ops else None


def job(j):
    cfg = j["cfg"]
    want = j["want"]      # "C06" | "C07"
    st = {"world": None, "n": 0, "viol": [], "distinct": set(), "samples": [], "tags": {}}

    def on_line(rec):
        if rec["kind"] == "schema":
            if st["world"] is None:
                st["world"] = World(rec["types"], rec["roots"])
            return
        is_seed = rec["rule"] == ""
        if (want == "C06") != is_seed:
            return
        w = st["world"]
        st["n"] += 1
        nodes = rec["nodes"]
        doc = render.DocText(nodes, layout=st["n"] % 2, reverse_defs=(st["n"] % 3 == 0 and is_seed), rename_frags=("op" if st["n"] % 4 == 1 else False))
        cs = CaseState({})
        cs.ctx = {"__cs": cs}
        eng = w.engine({"hooks": True})
        w.hook_calls = w.tr_calls = 0
        opn = first_op_name(nodes)
        is_sub = any(n["k"] == "OP" and n["optype"] == "subscription" and (n["name"] or None) == opn for n in nodes)
        try:
            if is_sub:
                async def first():
                    agen = eng.subscribe(doc.text, operation_name=opn, context=cs.ctx, variables=default_vars(nodes))
                    try:
                        return await agen.__anext__()
                    except StopAsyncIteration:
                        return {"__ended__": True}
                    finally:
                        await agen.aclose()
                async def src(fn, parent, args, ctx, info):
                    cs.calls.append((("<source>",), "", {}, ctx))
                    yield {"_id": "E1"}
                cs.source = src
                w.case = cs
                resp = main_loop().run(first())
                w.case = None
            else:
                resp = main_loop().run(eng.execute(doc.text, operation_name=opn, context=cs.ctx, variables=default_vars(nodes)))
        except BaseException as e:
            resp = {"__raised__": repr(e)}
        mm = []
        tags = []
        if isinstance(resp, dict):
            for e in resp.get("errors") or []:
                t = (e.get("extensions") or {}).get("tag") if isinstance(e, dict) else None
                if t:
                    tags.append(t)
        if is_seed:
            if not isinstance(resp, dict) or "__raised__" in resp:
                mm.append("valid document: execute raised %r" % (resp,))
            elif tags:
                mm.append("valid document refused by rule(s) %s" % sorted(set(tags)))
            elif resp.get("errors") and resp.get("data") is None and all((e.get("path") is None) for e in resp["errors"]) and not cs.calls and not is_sub:
                mm.append("valid document answered without running: %r" % (resp,))
            nsel = sum(1 for n in nodes if n["k"] in "FIS")
            if nsel >= 2:
                st["distinct"].add(hash(doc.text))
        else:
            st["distinct"].add((rec["rule"], rec["site"], execreplay.shape_class(nodes)))
            if not isinstance(resp, dict) or "__raised__" in resp:
                mm.append("execute raised / non-dict %r" % (resp,))
            else:
                if resp.get("data") is not None:
                    mm.append("document violating %s answered data %r" % (rec["rule"], resp.get("data")))
                if not resp.get("errors"):
                    mm.append("document violating %s answered without errors" % rec["rule"])
                if cs.calls:
                    mm.append("document violating %s ran resolvers %s" % (rec["rule"], [list(c[0]) for c in cs.calls]))
                if w.hook_calls or w.tr_calls:
                    mm.append("document violating %s invoked %d directive hooks and %d type resolvers" % (rec["rule"], w.hook_calls, w.tr_calls))
            for t in tags:
                st["tags"][t] = st["tags"].get(t, 0) + 1
        if len(st["samples"]) < 2 and st["n"] % 211 == 5:
            st["samples"].append({"rule_broken": rec["rule"], "site": rec["site"], "query": doc.text, "response": repr(resp)[:400]})
        if mm and len(st["viol"]) < 400:
            sig = {"kind": "valid-refused" if is_seed else "invalid-accepted", "rule": rec["rule"] if not is_seed else (sorted(set(tags)) or ["?"])[0],
                   "site": rec["site"], "first": mm[0][:90]}
            genrun.add_viol(st["viol"], (sig, {"case": rec, "query": doc.text, "mismatches": mm, "response": repr(resp)[:1500]}))

    res = tlc.run("MC_valid.tla", cfg, on_line=on_line, workers=1, timeout=3000)
    return {"job": j, "tlc": [genrun.tlc_summary(cfg, res)], "evaluations": st["n"], "distinct": [list(map(str, d)) if isinstance(d, tuple) else d for d in st["distinct"]],
            "samples": st["samples"], "violations": st["viol"], "extra": {"rule_tags_reported": st["tags"]}}


def main(argv, pid="C07"):
    rep = common.Report(pid)
    if pid == "C07":
        rep.rule = ("cases = (valid seed document from the generator, supported rule, site): every violation-injecting rewrite of Validation.tla applied at every "
                    "applicable node; distinct_nontrivial = distinct (rule, site kind, seed shape class)")
    else:
        rep.rule = ("cases = valid documents generated by construction (TLC-checked against all 26 rule predicates), rendered in two layouts and with definitions in "
                    "both orders; distinct_nontrivial = distinct texts with >= 2 selection nodes")
    rep.assumptions = ["stand-in parser", "field-merge validation (OverlappingFieldsCanBeMerged) is documented as unsupported: generated documents always satisfy it",
                       "which rule reports the violation is not compared (another rule may fire first)"]
    cfgs = ["MC_valid_1.cfg", "MC_valid_2.cfg", "MC_valid_3.cfg", "MC_valid_4.cfg"]
    if common.tier() == "thorough":
        cfgs.append("MC_valid_2_big.cfg")
    results = genrun.run_jobs("checks.c07", "job", [{"cfg": c, "want": pid} for c in cfgs])
    bad = genrun.merge(rep, results)
    merged = {}
    for r in results:
        for k, v in (r.get("extra", {}).get("rule_tags_reported") or {}).items():
            merged[k] = merged.get(k, 0) + v
    rep.extra["rule_tags_reported"] = merged
    rc = rep.finish()
    if bad:
        for b in bad:
            print("MACHINERY-ERROR %s: %s" % (b["job"], b["machinery_error"][-2000:]))
        return 2
    return rc
