"""C13 — directive hooks wrap their target exactly once, nested in declaration order.
R1: SameHooksLitVar / CountOK (TLC, Directives.tla).  R2: for every configuration (number of tagging
directive instances at each of the 9 attachable locations) a schema is cooked and 8 request kinds
(scalar / enum / input object arguments as literal, variable, nested variable; object output) are
executed; the strings received by resolvers, the strings in `data` and the hook call log are compared
with the prediction."""
import json
import common, genrun, tlc
import base
from base import main_loop, unique_schema_name

DIRS = {"ts": ("s", "SCALAR"), "te": ("e", "ENUM"), "tv": ("v", "ENUM_VALUE"), "tio": ("io", "INPUT_OBJECT"), "tif": ("if", "INPUT_FIELD_DEFINITION"),
        "ta": ("a", "ARGUMENT_DEFINITION"), "tf": ("f", "FIELD_DEFINITION"), "tq": ("q", "FIELD"), "tr": ("q", "FIELD"), "to": ("o", "OBJECT")}


class DirWorld:
    def __init__(self, cfg, hetero=False):
        """hetero=True: a directive WITHOUT any hook (@plain, with its own argument values) is declared after every tagging
        instance and between the query-side ones, and the built-in @include(if: true) follows them: elements carry directives
        with heterogeneous hook sets; the prediction is unchanged (hook-less directives contribute nothing)"""
        t = base.tartiflette()
        self.sn = unique_schema_name("dir")
        self.cfg = cfg
        self.log = []
        self.args_seen = []
        w = self

        def fresh(d, what):
            """every call gets its own dictionary: user code may keep and modify it"""
            if isinstance(d, dict) and "__scribbled__" in d:
                w.log.append(("STALE", what, 0))

        def scribble(d):
            if isinstance(d, dict):
                d["__scribbled__"] = True

        def mark(v, h, loc, n):
            if isinstance(v, dict) and h == "o":
                # an object type's output hook returns a NEW object whose leaves are marked (what it returns is what the next stage sees)
                return {k: mark(x, h, loc, n) for k, x in v.items()}
            return v + "<%s%s%d>" % (h, loc, n) if isinstance(v, str) and "(" in v else v

        for name, (loc, _where) in DIRS.items():
            def mk(name, loc):
                @t.Directive(name, schema_name=self.sn)
                class Tag:
                    async def on_post_input_coercion(self, directive_args, next_directive, parent_node, value, ctx):
                        w.log.append(("in", loc, directive_args["n"]))
                        return await next_directive(parent_node, mark(value, "i", loc, directive_args["n"]), ctx)

                    async def on_argument_execution(self, directive_args, next_directive, parent_node, argument_definition_node, argument_node, value, ctx):
                        w.log.append(("arg", loc, directive_args["n"]))
                        return await next_directive(parent_node, argument_definition_node, argument_node, mark(value, "a", loc, directive_args["n"]), ctx)

                    async def on_field_execution(self, directive_args, next_resolver, parent, args, ctx, info):
                        w.log.append(("field", loc, directive_args["n"]))
                        fresh(directive_args, "directive_args")
                        n = directive_args["n"]
                        scribble(directive_args)
                        return mark(await next_resolver(parent, args, ctx, info), "f", loc, n)

                    async def on_pre_output_coercion(self, directive_args, next_directive, value, ctx, info):
                        w.log.append(("out", loc, directive_args["n"]))
                        return await next_directive(mark(value, "o", loc, directive_args["n"]), ctx, info)
            mk(name, loc)

        @t.Scalar("Sx", schema_name=self.sn)
        class Sx:
            def coerce_output(self, v):
                return "out(%s)" % v

            def coerce_input(self, v):
                return "in(%s)" % v

            def parse_literal(self, ast):
                return "lit(%s)" % getattr(ast, "value", None)

        @t.Directive("plain", schema_name=self.sn)
        class Plain:
            pass

        def tags(name, n):
            return "".join(" @%s(n: %d)" % (name, k) + (" @plain(n: %d)" % (90 + k) if hetero else "") for k in range(1, n + 1))
        c = cfg
        sdl = "\n".join("directive @%s(n: Int) on %s" % (n, where) for n, (_l, where) in DIRS.items())
        sdl += "\ndirective @plain(n: Int) on " + " | ".join(sorted({where for _l, where in DIRS.values()}))
        sdl += """
scalar Sx%s
enum E%s { X%s  Y }
enum E2 { Y  X @tv(n: 7)  Z @tv(n: 8) }
input In%s { f: Sx%s  e: E }
type T%s { s: Sx }
interface I { n: Sx }
type IA implements I%s { n: Sx%s }
type IB implements I%s { n: Sx%s }
type Query {
  items: [I]
  fs(a: Sx%s): Sx%s
  fe(a: E%s): E%s
  fi(a: In%s): Sx%s
  fd(a: Sx = "v"%s): Sx%s
  o: T
  other(a: E2): E2
}
""" % (tags("ts", c["s"]), tags("te", c["e"]), tags("tv", c["v"]), tags("tio", c["io"]), tags("tif", c["if"]), tags("to", c["o"]),
       tags("to", c["o"]), tags("tf", c["f"]), tags("to", c["o"]), tags("tf", c["f"]),
       tags("ta", c["a"]), tags("tf", c["f"]), tags("ta", c["a"]), tags("tf", c["f"]), tags("ta", c["a"]), tags("tf", c["f"]),
       tags("ta", c["a"]), tags("tf", c["f"]))
        self.sdl = sdl

        @t.Resolver("Query.fs", schema_name=self.sn)
        async def fs(p, a, ctx, i):
            w.args_seen.append(a.get("a"))
            return a.get("a")

        @t.Resolver("Query.fd", schema_name=self.sn)
        async def fd(p, a, ctx, i):
            w.args_seen.append(a.get("a"))
            return a.get("a")

        @t.Resolver("Query.fe", schema_name=self.sn)
        async def fe(p, a, ctx, i):
            w.args_seen.append(a.get("a"))
            return a.get("a")

        @t.Resolver("Query.fi", schema_name=self.sn)
        async def fi(p, a, ctx, i):
            w.args_seen.append((a.get("a") or {}).get("f"))
            return (a.get("a") or {}).get("f")

        @t.Resolver("Query.items", schema_name=self.sn)
        async def items(p, a, ctx, i):
            fresh(a, "args of Query.items")
            scribble(a)
            return [{"_typename": "IA", "n": "r(a)"}, {"_typename": "IB", "n": "r(b)"}]

        @t.Resolver("Query.o", schema_name=self.sn)
        async def o(p, a, ctx, i):
            fresh(a, "args of Query.o")
            scribble(a)
            return {"s": "r(v)"}

        @t.Resolver("Query.other", schema_name=self.sn)
        async def other(p, a, ctx, i):
            return a.get("a")
        self.eng = main_loop().run(t.create_engine(sdl, schema_name=self.sn))
        q = (" @tq(n: 1)" if c["q"] >= 1 else "") + (" @plain(n: 97)" if hetero else "") + (" @tr(n: 2)" if c["q"] >= 2 else "") + (" @include(if: true)" if hetero else "")
        self.hetero = hetero
        self.requests = {
            "lit": ('{ fs(a: "v")%s }' % q, None, "fs"),
            "var": ("query ($x: Sx) { fs(a: $x)%s }" % q, {"x": "v"}, "fs"),
            "enumlit": ("{ fe(a: X)%s }" % q, None, "fe"),
            "enumvar": ("query ($x: E) { fe(a: $x)%s }" % q, {"x": "X"}, "fe"),
            "objlit": ('{ fi(a: {f: "v", e: X})%s }' % q, None, "fi"),
            "objvar": ("query ($x: In) { fi(a: $x)%s }" % q, {"x": {"f": "v", "e": "X"}}, "fi"),
            "objnested": ("query ($x: Sx) { fi(a: {f: $x, e: X})%s }" % q, {"x": "v"}, "fi"),
            "object": ("{ o { s } }", None, "o"),
            # the argument left out: its schema default goes through the same hooks as the literal "v"
            "default": ("{ fd%s }" % q, None, "fd"),
        }

    def run_merged(self):
        """items { n @tq ... on IB { n @tr } }: one merged node for the IA item, two for the IB item"""
        extra = " @plain(n: 98) @skip(if: false)" if self.hetero else ""
        q = "{ items { n%s ... on IB { n%s } } }" % ((" @tq(n: 1)" if self.cfg["q"] >= 1 else "") + extra, (" @tr(n: 2)" if self.cfg["q"] >= 2 else "") + extra)
        self.log = []
        try:
            return main_loop().run(self.eng.execute(q)), q
        except BaseException as e:
            return {"__raised__": repr(e)}, q

    def run_merged_fragment(self):
        """the same named fragment (with a query-side directive inside) spread under two selections of one response key:
        the merged field is executed once, its directives wrap once"""
        q = "{ items { ...F } items { ...F } }  fragment F on I { n%s }" % ((" @tq(n: 1)" if self.cfg["q"] >= 1 else "") + (" @tr(n: 2)" if self.cfg["q"] >= 2 else ""))
        self.log = []
        try:
            return main_loop().run(self.eng.execute(q)), q
        except BaseException as e:
            return {"__raised__": repr(e)}, q

    def run(self, kind):
        q, variables, field = self.requests[kind]
        self.log = []
        self.args_seen = []
        try:
            r = main_loop().run(self.eng.execute(q, variables=variables))
        except BaseException as e:
            r = {"__raised__": repr(e)}
        return r, field


def job(j):
    cfg = j["cfg"]
    st = {"n": 0, "viol": [], "distinct": set(), "samples": []}

    def on_line(rec):
        for hetero in (False, True):
            one_world(rec, hetero)

    def one_world(rec, hetero):
        c = rec["cfg"]
        w = DirWorld(c, hetero)
        for kind, exp in list(rec["expect"].items()) + [("default", rec["expect"]["lit"])]:
            st["n"] += 1
            resp, field = w.run(kind)
            mm = []
            if not isinstance(resp, dict) or resp.get("errors") or "__raised__" in resp:
                mm.append("%s: errors %r" % (kind, resp))
            else:
                data = resp["data"][field]
                got = data["s"] if kind == "object" else data
                if got != exp["data"]:
                    mm.append("%s: data %r expected %r" % (kind, got, exp["data"]))
                if kind != "object" and (len(w.args_seen) != 1 or w.args_seen[0] != exp["arg"]):
                    mm.append("%s: resolver saw %r expected %r" % (kind, w.args_seen, exp["arg"]))
                want = sorted((e["hook"], e["loc"], e["k"]) for e in exp["log"])
                have = sorted(w.log)
                # the input object in the enum-less nested request and the `e` input field: enum hooks of field e are part of the object flows
                if kind in ("objlit", "objvar", "objnested"):
                    have = [h for h in have if h[1] not in ("v", "e")]
                if have != want:
                    mm.append("%s: hook calls %r expected exactly once each: %r" % (kind, have, want))
            if sum(c.values()) >= 2:
                st["distinct"].add((json.dumps(c, sort_keys=True), kind, hetero))
            if mm and len(st["viol"]) < 400:
                genrun.add_viol(st["viol"], ({"kind": "directive-mismatch", "request": kind, "hookless_directives_interleaved": hetero, "first": mm[0][:120]},
                                             {"cfg": c, "sdl": w.sdl, "request": w.requests[kind][:2], "mismatches": mm, "log": w.log}))
        st["n"] += 2
        resp, q = w.run_merged()
        resp_again, _q = w.run_merged()        # the same text once more: per-document state must not accumulate
        mm = []
        if any(e[0] == "STALE" for e in w.log):
            mm.append("merged: a hook / resolver received a dictionary that an earlier call had modified: %r" % sorted({e[1] for e in w.log if e[0] == "STALE"}))
        if resp_again != resp:
            mm.append("merged: the second execution of the same text answers %r, the first %r" % (resp_again, resp))
        if not isinstance(resp, dict) or resp.get("errors") or "__raised__" in resp:
            mm.append("merged: errors %r" % (resp,))
        else:
            got = [it["n"] for it in resp["data"]["items"]]
            want = [rec["merged"]["itemA"], rec["merged"]["itemB"]]
            if got != want:
                mm.append("merged field nodes: data %r expected %r" % (got, want))
        if mm and len(st["viol"]) < 400:
            genrun.add_viol(st["viol"], ({"kind": "directive-mismatch", "request": "merged", "hookless_directives_interleaved": hetero, "first": mm[0][:120]}, {"cfg": c, "sdl": w.sdl, "request": q, "mismatches": mm}))
        # the fragment form of the merged request: both query-side directives sit on the one field node of the fragment
        st["n"] += 1
        respf, qf = w.run_merged_fragment()
        wantf = rec["expect"]["object"]["data"].replace("r(v)", "%s") if False else None
        single, _q1 = main_loop().run(w.eng.execute("{ items { n%s } }" % ((" @tq(n: 1)" if c["q"] >= 1 else "") + (" @tr(n: 2)" if c["q"] >= 2 else "")))), None
        if respf != single:
            genrun.add_viol(st["viol"], ({"kind": "directive-mismatch", "request": "merged-fragment", "hookless_directives_interleaved": hetero,
                                          "first": ("a fragment spread under two selections of one response key answers %r, the field selected once answers %r" % (respf, single))[:160]},
                                         {"cfg": c, "sdl": w.sdl, "request": qf}))
        if len(st["samples"]) < 1 and all(v == 2 for v in c.values()) and hetero:
            st["samples"].append({"cfg": c, "requests": {k: v[0] for k, v in w.requests.items()}, "expected": {k: {"arg": e["arg"], "data": e["data"]} for k, e in rec["expect"].items()}})

    res = tlc.run("MC_dirs.tla", cfg, on_line=on_line, workers=1, timeout=1500)
    return {"job": j, "tlc": [genrun.tlc_summary(cfg, res)], "evaluations": st["n"], "distinct": [list(d) for d in st["distinct"]],
            "samples": st["samples"], "violations": st["viol"]}


def main(argv):
    rep = common.Report("C13")
    rep.rule = ("cases = (configuration: 0..2 tagging directive instances at each of 9 locations - scalar, enum, enum value, input object, input field, argument, field "
                "definition, query field, object type - with at most 2 (thorough: 3) instances overall plus the all-2 configuration) x 8 request kinds; "
                "distinct_nontrivial = distinct (configuration with >= 2 instances, request kind)")
    rep.assumptions = ["the relative order of enum-value and enum-type hooks is not compared (only that each runs once): the property text leaves it open (DESIGN 7.2 D2)",
                       "hooks of interface / union types and on_introspection / on_schema_execution hooks are not generated",
                       "every configuration is cooked twice: tagging directives alone, and interleaved with a hook-less directive carrying other argument values (+ @include / @skip on the query side)"]
    cfgs = ["MC_dirs_3.cfg"] if common.tier() == "thorough" else ["MC_dirs_2.cfg"]
    results = genrun.run_jobs("checks.c13", "job", [{"cfg": c} for c in cfgs])
    bad = genrun.merge(rep, results)
    rc = rep.finish()
    if bad:
        for b in bad:
            print("MACHINERY-ERROR %s: %s" % (b["job"], b["machinery_error"][-2000:]))
        return 2
    return rc
