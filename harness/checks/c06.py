"""C06 — valid documents are never refused by validation.
R1: R1_SeedsValid (every generated document satisfies all 26 rule predicates of Validation.tla) and the
generator guards of GenDoc.tla.  R2: the valid seeds of MC_valid (rendered in two layouts, definitions in
both orders) and the fragment / operation / directive / variable heavy generator configurations of MC_exec
are sent to the engine: no error may carry a validation-rule tag."""
import common, genrun
from checks import c01, c07

EXEC_CFGS = ["MC_exec_frag.cfg", "MC_exec_fragq.cfg", "MC_exec_fragvar.cfg", "MC_exec_ops.cfg", "MC_exec_ops2.cfg", "MC_exec_dirs.cfg", "MC_exec_args.cfg", "MC_exec_abstract.cfg"]
VALID_CFGS = ["MC_valid_1.cfg", "MC_valid_2.cfg", "MC_valid_3.cfg", "MC_valid_4.cfg"]


def job(j):
    if j["mod"] == "c01":
        return c01.job(j)
    return c07.job(j)


def main(argv):
    rep = common.Report("C06")
    rep.rule = ("cases = documents valid by construction: (a) seeds of MC_valid (TLC-checked against all 26 rule predicates), two layouts, definitions in both orders; "
                "(b) MC_exec generator configurations rich in fragments (diamonds, repeated spreads, fragments after use), several operations, directives with literals and "
                "variables, variables flowing through fragments, introspection meta-field __typename; distinct_nontrivial = distinct texts / shape classes with >= 2 selection nodes")
    rep.assumptions = ["stand-in parser", "documents satisfy the (unsupported) field-merge rule by construction", "for (b) the data is also compared with the big-step prediction, but only refusals by a validation rule count for C06"]
    jobs = [{"mod": "c07", "cfg": c, "want": "C06"} for c in VALID_CFGS] + [{"mod": "c01", "cfg": c, "want": "C06"} for c in EXEC_CFGS]
    if common.tier() == "thorough":
        jobs += [{"mod": "c01", "cfg": c, "want": "C06"} for c in ["MC_exec_frag5.cfg", "MC_exec_dirs5.cfg"]] + [{"mod": "c07", "cfg": "MC_valid_2_big.cfg", "want": "C06"}]
    results = genrun.run_jobs("checks.c06", "job", jobs)
    bad = genrun.merge(rep, results)
    rc = rep.finish()
    if bad:
        for b in bad:
            print("MACHINERY-ERROR %s: %s" % (b["job"], b["machinery_error"][-2000:]))
        return 2
    return rc
