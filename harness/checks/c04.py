"""C04 — variable values are coerced exactly as the specification prescribes.
R1: R1_Vars (TLC, InputCoercion.tla via MC_vars, mode vars).  R2: every cell (declared type x
default? x absent / candidate JSON value) is sent through the engine."""
import re
import common, genrun, tlc, render
import inputworld
from inputworld import value_py, lit_text, expected_args

PARTS = 6


def refused_ok(resp, w, span=None):
    out = []
    if not isinstance(resp, dict) or "__raised__" in resp:
        return ["execute raised / non-dict: %r" % (resp,)]
    if resp.get("data") is not None:
        out.append("refused request but data is %r" % (resp.get("data"),))
    if not resp.get("errors"):
        out.append("refused request without errors")
    if w.calls:
        out.append("refused request but resolvers ran: %r" % (w.calls,))
    if span and resp.get("errors"):
        ok = False
        for e in resp["errors"]:
            for l in e.get("locations") or []:
                if l.get("line") == 1 and span[0] <= l.get("column", 0) < span[1]:
                    ok = True
        if not ok:
            out.append("no error is located inside the offending variable's definition %r: %r" % (span, resp["errors"]))
    return out


def job(j):
    cfg = j["cfg"]
    st = {"w": None, "n": 0, "viol": [], "distinct": set(), "samples": []}

    def pair_cell(w, rec):
        nn = rec.get("atype", ["NN", "Int"])[0] == "NN"
        da, db = ("$a: Int!" if nn else "$a: Int"), "$b: [E!]"
        q = "query (%s, %s) { %s(a: $a) e44(a: $b) }" % (da, db, "e2" if nn else "e1")
        spans = {"a": (8, 8 + len(da)), "b": (8 + len(da) + 2, 8 + len(da) + 2 + len(db))}
        variables = {name: value_py(v, 0) for name, v in rec["given"]}
        resp = w.run(q, variables)
        st["n"] += 1
        mm = []
        if rec["refused"]:
            mm = refused_ok(resp, w)
            for x in rec["offending"]:
                mm += [m for m in refused_ok(resp, w, spans[x]) if "located" in m]
        else:
            ea, eb = expected_args(rec["argsA"], 0), expected_args(rec["argsB"], 0)
            got = {c[0]: c[2] for c in w.calls}
            if not isinstance(resp, dict) or resp.get("errors") or not render.strict_eq(got.get("e2" if nn else "e1"), ea) or not render.strict_eq(got.get("e44"), eb):
                mm.append("two variables: resolvers saw %r, expected e2 %r e44 %r (%r)" % (w.calls, ea, eb, resp))
        st["distinct"].add(("pair", repr(rec["given"])))
        if mm and len(st["viol"]) < 400:
            genrun.add_viol(st["viol"], ({"kind": "var-pair", "offending": sorted(rec["offending"]), "first": mm[0][:100]},
                               {"cell": rec, "query": q, "variables": repr(variables), "mismatches": mm, "response": repr(resp)[:1500]}))

    def default_cell(w, rec):
        """the candidate value spelled as the DEFAULT of a variable that is not provided: an invalid used default refuses the
        request, a valid one is coerced like the provided value (R1_Ways: ArgsVarDefault.refused <=> VarRes.refused)"""
        ty = render.typeref(rec["type"])
        if rec["v"]["t"] == "N":
            # `= null` as the default of a variable that is not provided: refused for a non-null variable type,
            # an explicit null (kept distinct from absent) for a nullable one
            st["n"] += 1
            q = "query ($a: %s = null) { e%d(a: $a) }" % (ty, rec["ti"])
            resp = w.run(q, {"zz": 7})
            if rec["type"][0] == "NN":
                mm = refused_ok(resp, w)
            else:
                mm = []
                if not isinstance(resp, dict) or resp.get("errors") or "__raised__" in resp:
                    mm.append("null default of a nullable variable refused / errors: %r" % (resp,))
                elif len(w.calls) != 1 or not render.strict_eq(w.calls[0][2], {"a": None}):
                    mm.append("resolver saw %r, expected {'a': None}" % (w.calls,))
            if mm and len(st["viol"]) < 400:
                genrun.add_viol(st["viol"], ({"kind": "default-cell", "type": ty, "refused_expected": rec["type"][0] == "NN", "first": "null default: " + mm[0][:90]},
                                   {"cell": rec, "query": q, "mismatches": mm, "response": repr(resp)[:1500]}))
            return
        for k in (0, 1):
            st["n"] += 1
            vdef = "$a: %s = %s" % (ty, lit_text(rec["lit"], k))
            q = "query (%s) { e%d(a: $a) }" % (vdef, rec["ti"])
            variables = {"zz": 7}
            resp = w.run(q, variables)
            if rec["refused"]:
                mm = refused_ok(resp, w)
            else:
                exp = expected_args(rec["argsVar"], k)
                mm = []
                if not isinstance(resp, dict) or resp.get("errors") or "__raised__" in resp:
                    mm.append("valid default refused / errors: %r" % (resp,))
                elif len(w.calls) != 1 or not render.strict_eq(w.calls[0][2], exp):
                    mm.append("resolver saw %r, expected %r" % (w.calls, exp))
            # the same default with its enum values spelt as string literals ("X"): an invalid default, whatever the value
            if k == 0 and inputworld.has_enum_literal(rec["lit"]):
                st["n"] += 1
                q2 = "query ($a: %s = %s) { e%d(a: $a) }" % (ty, lit_text(rec["lit"], k, enum_as_string=True), rec["ti"])
                resp2 = w.run(q2, variables)
                mm2 = refused_ok(resp2, w)
                if mm2 and len(st["viol"]) < 400:
                    genrun.add_viol(st["viol"], ({"kind": "default-cell", "type": ty, "refused_expected": True, "first": "string literal for an enum in a default: " + mm2[0][:80]},
                                       {"cell": rec, "query": q2, "variables": repr(variables), "mismatches": mm2, "response": repr(resp2)[:1500]}))
            st["distinct"].add((rec["ti"], "default", repr(rec["v"])))
            if mm and len(st["viol"]) < 400:
                genrun.add_viol(st["viol"], ({"kind": "default-cell", "type": ty, "refused_expected": rec["refused"], "first": mm[0][:100]},
                                   {"cell": rec, "query": q, "variables": repr(variables), "mismatches": mm, "response": repr(resp)[:1500]}))

    def guarded_input_cells(w):
        """a variable of an input type whose field carries a directive that raises (a plain exception) for one value: that value
        refuses the request - query and subscription alike, the source stream is not started - any other value is delivered"""
        for q, sub in (("query ($a: Ing) { eg(a: $a) }", False), ("subscription ($a: Ing) { ug(a: $a) }", True)):
            for val, bad in (({"v": 13}, True), ({"v": 12}, False), ({"v": 13, "w": 1}, True), ({}, False)):
                if "[Ing!]" in q:
                    val = [{"v": 1}, val]
                st["n"] += 1
                variables = {"a": val, "zz": 7}
                resp = w.run_sub(q, variables) if sub else w.run(q, variables)
                if bad:
                    mm = refused_ok(resp, w)
                else:
                    ok = isinstance(resp, dict) and not resp.get("errors") and "__raised__" not in resp
                    if ok and "[Ing!]" not in q:
                        exp = {"a": dict({"w": 2}, **val)}
                        seen = [c[2] for c in w.calls]
                        ok = bool(seen) and all(render.strict_eq(dict(sorted(x.get("a", {}).items())), dict(sorted(exp["a"].items()))) for x in seen)
                    mm = [] if ok else ["guarded input field: value %r: %r / calls %r" % (val, resp, w.calls)]
                if mm:
                    genrun.add_viol(st["viol"], ({"kind": "var-cell", "type": "Ing", "refused_expected": bad, "first": ("guarded input field (%s): " % ("subscription" if sub else "query")) + mm[0][:90]},
                                       {"query": q, "variables": repr(variables), "mismatches": mm, "response": repr(resp)[:1500]}))

    def integral_float_id_cells(w):
        """an ID given as an integral JSON float denotes that integer: the resolver observes its decimal text (Scalars.tla: In(ID, fS) = sS)"""
        idx = {render.typeref(t): i for i, t in enumerate(w.types, 1)}
        for tys, val, exp in (("ID", 7.0, "7"), ("ID!", 1e3, "1000"), ("[ID]", [7.0, 2], ["7", "2"]), ("[ID!]!", 12.0, ["12"])):
            ti = idx[tys]
            st["n"] += 1
            q = "query ($a: %s) { e%d(a: $a) }" % (tys, ti)
            resp = w.run(q, {"a": val})
            seen = [c[2] for c in w.calls]
            if not isinstance(resp, dict) or resp.get("errors") or seen != [{"a": exp}]:
                genrun.add_viol(st["viol"], ({"kind": "var-cell", "type": tys, "refused_expected": False, "first": "integral float for an ID: resolver saw %r, expected %r" % (seen, exp)},
                                   {"query": q, "variables": repr({"a": val}), "response": repr(resp)[:800]}))

    def on_line(rec):
        if rec["kind"] == "itypes":
            st["w"] = inputworld.InputWorld(rec)
            if cfg.endswith("vars_0.cfg"):
                guarded_input_cells(st["w"])
                integral_float_id_cells(st["w"])
            return
        w = st["w"]
        if rec["kind"] == "paircell":
            return pair_cell(w, rec)
        if rec["kind"] == "waycell":
            return default_cell(w, rec)
        ty = render.typeref(rec["type"])
        for k in (0, 1):
            st["n"] += 1
            vdef = "$a: %s" % ty + (" = " + lit_text(rec["default"], k) if rec["hasDefault"] else "")
            q = "query (%s) { e%d(a: $a) }" % (vdef, rec["ti"])
            span = (8, 8 + len(vdef))
            variables = {"zz": 7}
            if rec["present"]:
                variables["a"] = value_py(rec["v"], k)
            resp = w.run(q, variables)
            mm = []
            if rec["refused"]:
                mm = refused_ok(resp, w, span)
            elif not rec["args"]["ok"]:
                mm = ["spec: accepted variables but argument fails - not expected in this configuration"]
            else:
                exp = expected_args(rec["args"], k)
                if not isinstance(resp, dict) or resp.get("errors") or "__raised__" in resp:
                    mm.append("valid variables refused / errors: %r" % (resp,))
                elif len(w.calls) != 1 or not render.strict_eq(w.calls[0][2], exp):
                    mm.append("resolver saw %r, expected %r" % (w.calls, exp))
            # a refused variable value refuses a SUBSCRIPTION the same way: one errors-only response, the source stream is not started,
            # nothing is raised into the consumer
            if k == 0 and rec["refused"] and rec["present"]:
                st["n"] += 1
                qs = "subscription (%s) { u%d(a: $a) }" % (vdef, rec["ti"])
                resps = w.run_sub(qs, variables)
                mms = refused_ok(resps, w)
                if mms:
                    genrun.add_viol(st["viol"], ({"kind": "var-cell", "type": ty, "refused_expected": True, "first": "subscription: " + mms[0][:90]},
                                       {"cell": rec, "query": qs, "variables": repr(variables), "mismatches": mms, "response": repr(resps)[:1500]}))
            # an explicit null reaches an argument that has a schema default of its own as null, not as that default
            if k == 0 and rec["present"] and rec["v"]["t"] == "N" and not rec["refused"] and not rec["hasDefault"]:
                st["n"] += 1
                q3 = "query ($a: %s) { d%d(a: $a) }" % (ty, rec["ti"])
                resp3 = w.run(q3, {"a": None, "zz": 7})
                seen = [c[2] for c in w.calls if c[0] == "d%d" % rec["ti"]]
                if not isinstance(resp3, dict) or resp3.get("errors") or seen != [{"a": None}]:
                    genrun.add_viol(st["viol"], ({"kind": "var-cell", "type": ty, "refused_expected": False, "first": "explicit null for an argument with a default: resolver saw %r" % (seen,)},
                                       {"cell": rec, "query": q3, "response": repr(resp3)[:1200]}))
            st["distinct"].add((rec["ti"], rec["hasDefault"], rec["present"], repr(rec["v"])))
            if mm and len(st["viol"]) < 400:
                genrun.add_viol(st["viol"], ({"kind": "var-cell", "type": ty, "refused_expected": rec["refused"], "first": mm[0][:100]},
                                   {"cell": rec, "query": q, "variables": repr(variables), "mismatches": mm, "response": repr(resp)[:1500]}))
        if len(st["samples"]) < 2 and st["n"] % 301 == 1:
            st["samples"].append({"query": q, "variables": repr(variables), "expected_refused": rec["refused"], "expected_args": rec["args"]})

    res = tlc.run("MC_vars.tla", cfg, on_line=on_line, workers=1, timeout=1500)
    return {"job": j, "tlc": [genrun.tlc_summary(cfg, res)], "evaluations": st["n"], "distinct": [list(map(str, d)) for d in st["distinct"]],
            "samples": st["samples"], "violations": st["viol"]}


def main(argv):
    rep = common.Report("C04")
    rep.rule = ("cases = (declared variable type among 66: 8 wrapper shapes x {Int, Float, String, Boolean, ID, enum, 2 input objects incl. recursive/defaulted/required "
                "fields} + two depth-3 nestings) x default? x (absent | candidate JSON value one mutation away from well-typed at every position) x 2 representatives; "
                "+ every candidate value spelled as the default of a variable that is not provided; distinct_nontrivial = distinct (type, default?, present?, value) cells")
    rep.assumptions = ["stand-in parser", "leaf values are token representatives (harness/tokens.py); scalar leaf laws themselves are C10's", "an undeclared variable zz is always sent along"]
    results = genrun.run_jobs("checks.c04", "job", [{"cfg": "MC_vars_%d.cfg" % p} for p in range(PARTS)] + [{"cfg": "MC_pairs.cfg"}, {"cfg": "MC_pairs2.cfg"}]
                              + [{"cfg": "MC_ways_%d.cfg" % p} for p in range(PARTS)])
    bad = genrun.merge(rep, results)
    rc = rep.finish()
    if bad:
        for b in bad:
            print("MACHINERY-ERROR %s: %s" % (b["job"], b["machinery_error"][-2000:]))
        return 2
    return rc
