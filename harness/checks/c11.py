"""C11 — introspection describes exactly the schema that was supplied.
R1: R1_WellFormed / R1_ImageExact (TLC, SchemaModel.tla).  R2: every generated model is rendered to SDL,
supplied in the four ways, and the introspection answer is projected and compared with Image(model)."""
import json
import common, genrun, tlc, render
from base import main_loop
import schemaworld as sw

KIND = {"OBJECT": "OBJECT", "INTERFACE": "INTERFACE", "UNION": "UNION", "ENUM": "ENUM", "SCALAR": "SCALAR", "INPUT": "INPUT_OBJECT"}


def compare(image, data, eng):
    out = []
    sch = data["__schema"]
    if data.get("__typename") != image["query"]:
        out.append("__typename at the root is %r, expected %r" % (data.get("__typename"), image["query"]))
    for key, field in (("query", "queryType"), ("mutation", "mutationType"), ("subscription", "subscriptionType")):
        got = (sch.get(field) or {}).get("name") or ""
        if got != image[key]:
            out.append("%s is %r, expected %r" % (field, got, image[key]))
    actual = {t["name"]: t for t in sch["types"]}
    if len(actual) != len(sch["types"]):
        out.append("duplicate type names in __schema.types")
    exp_names = {t["name"] for t in image["types"]} | set(image["builtinScalars"])
    allowed = exp_names | set(image["metaTypes"])          # the engine's own meta-types may (but need not) be listed
    if not (exp_names <= set(actual) <= allowed):
        out.append("type names: missing %s, extra %s" % (sorted(exp_names - set(actual)), sorted(set(actual) - allowed)))
    for t in image["types"]:
        a = actual.get(t["name"])
        if a is None:
            continue
        pre = "type %s: " % t["name"]
        if a["kind"] != KIND[t["kind"]]:
            out.append(pre + "kind %r expected %r" % (a["kind"], KIND[t["kind"]]))
        # fields
        if t["kind"] in ("OBJECT", "INTERFACE"):
            af = {f["name"]: f for f in (a.get("fields") or [])}
            ef = {f["name"]: f for f in t["fields"]}
            if set(af) != set(ef):
                out.append(pre + "fields missing %s extra %s" % (sorted(set(ef) - set(af)), sorted(set(af) - set(ef))))
            for n, f in ef.items():
                g = af.get(n)
                if g is None:
                    continue
                if sw.typeref_of(g["type"]) != list(f["type"]):
                    out.append(pre + "field %s type %s expected %s" % (n, sw.typeref_of(g["type"]), f["type"]))
                if sw.canon_args([sw.arg_image(x) for x in g["args"]]) != sw.canon_args(f["args"]):
                    out.append(pre + "field %s args %s expected %s" % (n, sw.canon_args([sw.arg_image(x) for x in g["args"]]), sw.canon_args(f["args"])))
                if bool(g["isDeprecated"]) != bool(f["dep"]):
                    out.append(pre + "field %s isDeprecated %r expected %r" % (n, g["isDeprecated"], f["dep"]))
                if f["dep"] and sw.expected_reason(f["reason"], g.get("deprecationReason")) is not None:
                    out.append(pre + "field %s deprecationReason %r expected %s" % (n, g.get("deprecationReason"), sw.expected_reason(f["reason"], g.get("deprecationReason"))))
                if not f["dep"] and g.get("deprecationReason") is not None:
                    out.append(pre + "field %s has a deprecation reason but is not deprecated" % n)
            nondep = {n for n, f in ef.items() if not f["dep"]}
            for key in ("fieldsDefault", "fieldsNoDep"):
                got = {f["name"] for f in (a.get(key) or [])}
                if got != nondep:
                    out.append(pre + "%s = %s expected the non-deprecated fields %s" % (key, sorted(got), sorted(nondep)))
            if t["kind"] == "OBJECT":
                got = {i["name"] for i in (a.get("interfaces") or [])}
                if got != set(t["ifaces"]):
                    out.append(pre + "interfaces %s expected %s" % (sorted(got), sorted(t["ifaces"])))
        if t["kind"] in ("INTERFACE", "UNION"):
            got = {i["name"] for i in (a.get("possibleTypes") or [])}
            if got != set(t["possible"]):
                out.append(pre + "possibleTypes %s expected %s" % (sorted(got), sorted(t["possible"])))
        if t["kind"] == "ENUM":
            av = {v["name"]: v for v in (a.get("enumValues") or [])}
            ev = {v["name"]: v for v in t["values"]}
            if set(av) != set(ev):
                out.append(pre + "enum values %s expected %s" % (sorted(av), sorted(ev)))
            for n, v in ev.items():
                g = av.get(n)
                if g and bool(g["isDeprecated"]) != bool(v["dep"]):
                    out.append(pre + "enum value %s isDeprecated %r expected %r" % (n, g["isDeprecated"], v["dep"]))
                if g and v["dep"] and sw.expected_reason(v["reason"], g.get("deprecationReason")) is not None:
                    out.append(pre + "enum value %s reason %r expected %s" % (n, g.get("deprecationReason"), sw.expected_reason(v["reason"], g.get("deprecationReason"))))
                if g and not v["dep"] and g.get("deprecationReason") is not None:
                    out.append(pre + "enum value %s has a deprecation reason but is not deprecated" % n)
            got = {v["name"] for v in (a.get("enumDefault") or [])}
            if got != {n for n, v in ev.items() if not v["dep"]}:
                out.append(pre + "enumValues (default) = %s expected the non-deprecated ones" % sorted(got))
        if t["kind"] == "INPUT":
            if sw.canon_args([sw.arg_image(x) for x in (a.get("inputFields") or [])]) != sw.canon_args(t["inputs"]):
                out.append(pre + "inputFields %s expected %s" % (sw.canon_args([sw.arg_image(x) for x in (a.get("inputFields") or [])]), sw.canon_args(t["inputs"])))
    # directives
    ad = {d["name"]: d for d in sch["directives"]}
    ed = {d["name"]: d for d in image["directives"]}
    if set(ad) != set(ed) | set(image["builtinDirectives"]):
        out.append("directives %s expected %s" % (sorted(ad), sorted(set(ed) | set(image["builtinDirectives"]))))
    for n, d in ed.items():
        g = ad.get(n)
        if g is None:
            continue
        if set(g["locations"]) != set(d["locs"]):
            out.append("directive %s locations %s expected %s" % (n, g["locations"], d["locs"]))
        if sw.canon_args([sw.arg_image(x) for x in g["args"]]) != sw.canon_args(d["args"]):
            out.append("directive %s args differ" % n)
    # __type agrees with __schema.types, null for unknown names
    for name in list(exp_names)[:60] + ["NoSuchType"]:
        r = main_loop().run(eng.execute(sw.TYPE_Q, variables={"n": name}))
        ty = (r.get("data") or {}).get("__type")
        if name == "NoSuchType":
            if ty is not None or r.get("errors"):
                out.append("__type(NoSuchType) = %r" % (r,))
            continue
        a = actual.get(name)
        if ty is None or a is None:
            out.append("__type(%s) is null" % name)
            continue
        same = (ty["kind"] == a["kind"] and ty["name"] == a["name"]
                and {f["name"] for f in (ty.get("fields") or [])} == {f["name"] for f in (a.get("fields") or [])}
                and {f["name"] for f in (ty.get("possibleTypes") or [])} == {f["name"] for f in (a.get("possibleTypes") or [])}
                and {f["name"] for f in (ty.get("enumValues") or [])} == {f["name"] for f in (a.get("enumValues") or [])}
                and {f["name"] for f in (ty.get("inputFields") or [])} == {f["name"] for f in (a.get("inputFields") or [])})
        if not same:
            out.append("__type(%s) disagrees with its entry in __schema.types" % name)
    return out


def job(j):
    cfg = j["cfg"]
    st = {"n": 0, "viol": [], "distinct": set(), "samples": []}

    def on_line(rec):
        if rec["kind"] != "model":
            return
        st["seen"] = st.get("seen", 0) + 1
        if "part" in j and st["seen"] % j["parts"] != j["part"]:
            return
        pieces, image = rec["pieces"], rec["image"]
        routes = (sw.ROUTES + ["string"]) if (st["n"] % j.get("route_every", 1) == 0) else (["string", "string"] if st["n"] % 4 == 1 else ["string"])
        for route in routes:
            st["n"] += 1
            eng, exc = sw.cook_model(pieces, route)
            if eng is None:
                mm = ["valid model does not cook via %s: %r" % (route, exc)]
            elif not rec.get("introspectable", True):
                resp = main_loop().run(eng.execute(sw.INTROSPECTION))
                r2 = main_loop().run(eng.execute(sw.TYPE_Q, variables={"n": "User"}))
                mm = []
                if (resp.get("data") or {}).get("__schema") is not None or not resp.get("errors"):
                    mm.append("a schema marked @nonIntrospectable answered __schema: %r" % (str(resp)[:200],))
                if (r2.get("data") or {}).get("__type") is not None:
                    mm.append("a schema marked @nonIntrospectable answered __type")
            else:
                resp = main_loop().run(eng.execute(sw.INTROSPECTION))
                if resp.get("errors") or not resp.get("data"):
                    mm = ["introspection query failed: %r" % (resp.get("errors"),)]
                else:
                    mm = compare(image, resp["data"], eng)
            st["distinct"].add((hash(json.dumps(pieces, sort_keys=True)), route))
            if mm:
                st.setdefault("budget", genrun.Budget("C11"))
                if st["budget"].note({"kind": "introspection-mismatch", "route": route if "cook" in mm[0] else "*", "first": mm[0][:110]}):
                    st["stop"] = True
            if mm and len(st["viol"]) < 400:
                genrun.add_viol(st["viol"], ({"kind": "introspection-mismatch", "route": route if "cook" in mm[0] else "*", "first": mm[0][:110]},
                                             {"pieces": pieces, "sdl": sw.supply(pieces, "string", "/nonexistent"), "route": route, "mismatches": mm[:20]}))
        if st.get("stop"):
            raise StopIteration        # hundreds of mismatches already: the check fails; do not cook thousands of further engines
        if len(st["samples"]) < 1 and rec["steps"] >= 1:
            st["samples"].append({"sdl": sw.supply(pieces, "string", "/nonexistent")[:1800], "routes": sw.ROUTES, "expected_type_names": sorted(t["name"] for t in image["types"])})

    res = tlc.run("MC_schema.tla", cfg, on_line=on_line, workers=1, timeout=3000)
    return {"job": j, "tlc": [genrun.tlc_summary(cfg, res)], "evaluations": st["n"], "distinct": [list(map(str, d)) for d in st["distinct"]],
            "samples": st["samples"], "violations": st["viol"]}


def main(argv):
    rep = common.Report("C11")
    rep.rule = ("cases = (schema model = base model with every type kind, wrappers to depth 3, defaults of every value kind, interfaces with 2-3 implementers, union, "
                "custom directive, deprecations, hidden fields + 0..2 generated variations incl. moving members into `extend` pieces of every kind) x 4 ways of supplying the SDL; "
                "distinct_nontrivial = distinct (model, route)")
    rep.assumptions = ["SDL descriptions and block strings are not generated", "default values are compared structurally after parsing the reported GraphQL literal",
                       "deprecationReason of a bare @deprecated is only required to be a string"]
    thorough = common.tier() == "thorough"
    jobs = [{"cfg": "MC_schema_models2.cfg" if thorough else "MC_schema_models.cfg", "route_every": 1}]
    if not thorough:
        jobs += [{"cfg": "MC_schema_models2.cfg", "route_every": 7, "parts": 4, "part": k} for k in range(4)]
    results = genrun.run_jobs("checks.c11", "job", jobs)
    bad = genrun.merge(rep, results)
    rc = rep.finish()
    if bad:
        for b in bad:
            print("MACHINERY-ERROR %s: %s" % (b["job"], b["machinery_error"][-2000:]))
        return 2
    return rc
