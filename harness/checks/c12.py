"""C12 — an engine is never built from an SDL that breaks a checked schema rule.
R1: R1_Broken (the targeted rule predicate is false on every break) and R1_WellFormed (TLC,
SchemaModel.tla).  R2: create_engine must raise for every broken model; the unbroken models cook."""
import json
import common, genrun, tlc
import schemaworld as sw


def job(j):
    cfg = j["cfg"]
    st = {"n": 0, "viol": [], "distinct": set(), "samples": [], "cooked_seeds": 0}

    def on_line(rec):
        if rec["kind"] == "model":
            eng, exc = sw.cook_model(rec["pieces"], "string")
            st["cooked_seeds"] += 1
            if eng is None and len(st["viol"]) < 400:
                genrun.add_viol(st["viol"], ({"kind": "valid-model-refused", "first": repr(exc)[:100]}, {"pieces": rec["pieces"], "error": repr(exc)}))
            return
        if rec["kind"] != "broken":
            return
        st["n"] += 1
        route = sw.ROUTES[st["n"] % 4] if st["n"] % 5 == 0 else "string"
        eng, exc = sw.cook_model(rec["pieces"], route)
        st["distinct"].add((rec["rule"], rec["site"], len(rec["pieces"])))
        site = rec["site"]
        if rec["rule"] == "extensions" and site.startswith("duplicate"):
            # is the duplicated member declared by the base definition or by another `extend` piece?
            last = rec["pieces"][-1]
            names = {x["name"] for x in last["fields"] + last["values"] + last["inputs"]} | set(last["members"]) | set(last["ifaces"])
            for p in rec["pieces"][:-1]:
                if p["ext"] and p["name"] == last["name"] and p["kind"] == last["kind"]:
                    other = {x["name"] for x in p["fields"] + p["values"] + p["inputs"]} | set(p["members"]) | set(p["ifaces"])
                    if names & other:
                        site += "-of-another-extend"
        if eng is not None and len(st["viol"]) < 400:
            genrun.add_viol(st["viol"], ({"kind": "broken-model-cooked", "rule": rec["rule"], "site": site},
                                         {"pieces": rec["pieces"], "sdl": sw.supply(rec["pieces"], "string", "/nonexistent"), "route": route}))
        if len(st["samples"]) < 3 and st["n"] % 397 == 3:
            st["samples"].append({"rule": rec["rule"], "site": rec["site"], "raised": repr(exc)[:300],
                                  "sdl_tail": sw.supply(rec["pieces"], "string", "/nonexistent")[-400:]})

    res = tlc.run("MC_schema.tla", cfg, on_line=on_line, workers=1, timeout=3000)
    return {"job": j, "tlc": [genrun.tlc_summary(cfg, res)], "evaluations": st["n"], "distinct": [list(map(str, d)) for d in st["distinct"]],
            "samples": st["samples"], "violations": st["viol"], "extra": {"unbroken_models_cooked": st["cooked_seeds"]}}


def main(argv):
    rep = common.Report("C12")
    rep.rule = ("cases = (well-formed schema model: base + 0..1 variation, checked rule, site): every break of SchemaModel.tla's catalogue (undefined / non-input types in fields, "
                "arguments, input fields, directive arguments, base definitions and `extend` pieces, behind wrappers; interface conformance; roots; empty objects; self-containing "
                "unions; duplicate enum values / definitions; scalar without implementation; non-awaitable directive hook; invalid extensions; syntax errors); "
                "distinct_nontrivial = distinct (rule, site, model size)")
    rep.assumptions = ["any exception type raised by create_engine counts as failing; messages are not compared"]
    cfgs = ["MC_schema_breaks.cfg"]
    results = genrun.run_jobs("checks.c12", "job", [{"cfg": c} for c in cfgs])
    bad = genrun.merge(rep, results)
    rc = rep.finish()
    if bad:
        for b in bad:
            print("MACHINERY-ERROR %s: %s" % (b["job"], b["machinery_error"][-2000:]))
        return 2
    return rc
