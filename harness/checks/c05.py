"""C05 — field and directive arguments reach resolvers spec-coerced; literal = variable.
R1: R1_Ways (TLC, MC_vars mode ways).  R2: every (type, value) cell is supplied in every
applicable way - literal, variable, variable default, variable inside a list / object
literal, schema default, omitted, null - at field and directive positions."""
import common, genrun, tlc, render
import inputworld
from inputworld import value_py, lit_text, expected_args
from checks.c04 import refused_ok

PARTS = 6


def inner_item_type(t):
    t = t[1:] if t[0] == "NN" else t
    return t[1:]


def _unordered(v):
    """dictionaries compared without regard to key order (the order of input fields is not part of C05)"""
    if isinstance(v, dict):
        return {k: _unordered(v[k]) for k in sorted(v)}
    if isinstance(v, list):
        return [_unordered(x) for x in v]
    return v


def job(j):
    cfg = j["cfg"]
    st = {"w": None, "n": 0, "viol": [], "distinct": set(), "samples": [], "done_static": set()}

    def flag(rec, way, q, variables, mm, resp):
        if mm and len(st["viol"]) < 400:
            genrun.add_viol(st["viol"], ({"kind": "way-cell", "way": way, "type": render.typeref(rec["type"]), "first": mm[0][:100]},
                               {"cell": rec, "query": q, "variables": repr(variables), "mismatches": mm, "response": repr(resp)[:1200]}))

    def expect_args(w, resp, field, exp, way):
        if not isinstance(resp, dict) or resp.get("errors") or "__raised__" in resp:
            return ["%s: unexpected errors %r" % (way, resp)]
        calls = [c for c in w.calls if c[0] == field]
        if len(calls) != 1 or not render.strict_eq(calls[0][2], exp):
            return ["%s: resolver saw %r, expected %r" % (way, w.calls, exp)]
        return []

    def expect_not_delivered(w, resp, field, way):
        out = []
        if not isinstance(resp, dict) or "__raised__" in resp:
            return ["%s: execute raised %r" % (way, resp)]
        if not resp.get("errors"):
            out.append("%s: ill-typed / missing value but no error" % way)
        if any(c[0] == field for c in w.calls):
            out.append("%s: resolver was called although the argument is invalid: %r" % (way, w.calls))
        return out

    def static_ways(w, ti, ty):
        """schema default, omitted, null literal - once per type"""
        if ti == 1:
            # an argument whose definition carries a directive that raises (a plain Python exception) for one value: that field fails,
            # its resolver is not called, the exception object is never delivered as the value
            for q, variables, bad in (("{ s gd(a: 13) }", None, True), ("{ s gd(a: 12) }", None, False), ("query ($x: Int) { s gd(a: $x) }", {"x": 13}, True),
                                      ("query ($x: Int) { s gd(a: $x, b: 1) }", {"x": 14}, False), ("{ s z: gd(b: 2, a: 13) gd(a: 1) }", None, True)):
                resp = w.run(q, variables)
                st["n"] += 1
                seen = [c for c in w.calls if c[0] == "gd"]
                if bad:
                    okc = [c[2] for c in seen] == ([{"a": 1, "b": 5}] if "z:" in q else [])
                    ok = isinstance(resp, dict) and resp.get("errors") and (resp.get("data") or {}).get("s") == "s" and okc
                else:
                    ok = isinstance(resp, dict) and not resp.get("errors") and len(seen) == 1 and all(type(v) is int for v in seen[0][2].values())
                flag({"type": ty, "ti": ti}, "argument-directive-raises", q, variables, [] if ok else ["guarded argument: resolver calls %r, response %r" % (seen, resp)], resp)
        f = "e%d" % ti
        nn = ty[0] == "NN"
        # schema default d<ti>(a: T = good)
        q = "{ d%d }" % ti
        resp = w.run(q)
        good = w.goods[ti - 1]
        st["n"] += 1
        mm = expect_args(w, resp, "d%d" % ti, expected_args(good["args"], 0), "schema-default") if good["args"]["ok"] else []
        flag({"type": ty, "ti": ti}, "schema-default", q, None, mm, resp)
        # the schema default again, in a later request and under two response keys of one request: every resolution
        # receives its own freshly coerced default (the resolvers modify what they receive)
        resp = w.run(q)
        st["n"] += 1
        mm = expect_args(w, resp, "d%d" % ti, expected_args(good["args"], 0), "schema-default") if good["args"]["ok"] else []
        flag({"type": ty, "ti": ti}, "schema-default-again", q, None, mm, resp)
        q2 = "{ x: d%d y: d%d }" % (ti, ti)
        resp = w.run(q2)
        st["n"] += 1
        if good["args"]["ok"]:
            exp = expected_args(good["args"], 0)
            seen = [c[2] for c in w.calls if c[0] == "d%d" % ti]
            mm = [] if (isinstance(resp, dict) and not resp.get("errors") and len(seen) == 2 and all(render.strict_eq(a, exp) for a in seen)) else \
                ["schema-default twice in one request: resolvers saw %r, expected twice %r (%r)" % (seen, exp, resp)]
            flag({"type": ty, "ti": ti}, "schema-default-twice", q2, None, mm, resp)
        # omitted
        q = "{ s %s }" % f
        resp = w.run(q)
        st["n"] += 1
        mm = expect_not_delivered(w, resp, f, "omitted") if nn else expect_args(w, resp, f, {}, "omitted")
        flag({"type": ty, "ti": ti}, "omitted", q, None, mm, resp)
        # null literal
        q = "{ s %s(a: null) }" % f
        resp = w.run(q)
        st["n"] += 1
        mm = expect_not_delivered(w, resp, f, "null-literal") if nn else expect_args(w, resp, f, {"a": None}, "null-literal")
        flag({"type": ty, "ti": ti}, "null-literal", q, None, mm, resp)
        # null through a variable (nullable variable type)
        if not nn:
            q = "query ($a: %s) { %s(a: $a) }" % (render.typeref(ty), f)
            resp = w.run(q, {"a": None})
            st["n"] += 1
            flag({"type": ty, "ti": ti}, "null-variable", q, {"a": None}, expect_args(w, resp, f, {"a": None}, "null-variable"), resp)
            resp = w.run(q, {})
            st["n"] += 1
            flag({"type": ty, "ti": ti}, "absent-variable", q, {}, expect_args(w, resp, f, {}, "absent-variable"), resp)

    def illtyped_ways(w):
        """a variable of another type nested in a list / object literal must never be delivered"""
        idx = {render.typeref(t): i for i, t in enumerate(w.types, 1)}
        for tys, q, variables, way in [
                ("[Int]", "query ($x: String) { s e%d(a: [$x]) }", {"x": "abc"}, "illtyped-variable-in-list"),
                ("[Int!]!", "query ($x: Boolean) { s e%d(a: [$x]) }", {"x": True}, "illtyped-variable-in-list"),
                ("[[Int]]", "query ($x: String) { s e%d(a: [[$x]]) }", {"x": "abc"}, "illtyped-variable-in-list"),
                ("[E]", "query ($x: String) { s e%d(a: [$x]) }", {"x": "Z"}, "illtyped-variable-in-list"),
                ("In1", "query ($x: String) { s e%d(a: {r: $x}) }", {"x": "abc"}, "illtyped-variable-in-object"),
                ("In2", "query ($x: Int) { s e%d(a: {n: {s: $x}}) }", {"x": 5}, "illtyped-variable-in-object"),
                ("[In1]", "query ($x: [String]) { s e%d(a: [{r: 1, y: $x}]) }", {"x": ["abc"]}, "illtyped-variable-in-object")]:
            ti = idx[tys]
            q = q % ti
            resp = w.run(q, variables)
            st["n"] += 1
            flag({"type": w.types[ti - 1], "ti": ti}, way, q, variables, expect_not_delivered(w, resp, "e%d" % ti, way), resp)

    def looser_variable_ways(w):
        """a variable whose type is looser than the argument's (nullable items for non-null items, nullable for non-null without any
        default) used DIRECTLY as the argument: never delivered - also when the variable or the argument has a default"""
        idx = {render.typeref(t): i for i, t in enumerate(w.types, 1)}
        for tys, field, vdef, variables in [
                ("[Int!]", "e%d", "$x: [Int] = [1]", {"x": [1, None]}),
                ("[Int!]!", "e%d", "$x: [Int] = [1]", {"x": [None]}),
                ("[Int!]", "d%d", "$x: [Int]", {"x": [1, None]}),              # the ARGUMENT has a default (d<k>)
                ("[[Int!]!]!", "e%d", "$x: [[Int]] = [[1]]", {"x": [[1, None]]}),
                ("[E!]", "e%d", "$x: [E] = [X]", {"x": ["X", None]}),
                ("[In1!]", "e%d", "$x: [In1] = []", {"x": [None]}),
                ("Int!", "e%d", "$x: Int", {"x": None})]:
            ti = idx[tys]
            f = field % ti
            for where in ("field", "directive"):
                if where == "directive" and f.startswith("d"):
                    continue
                q = ("query (%s) { s %s(a: $x) }" % (vdef, f)) if where == "field" else ("query (%s) { s @p%d(a: $x) }" % (vdef, ti))
                resp = w.run(q, variables)
                st["n"] += 1
                if where == "field":
                    mm = expect_not_delivered(w, resp, f, "looser-variable-type")
                else:
                    mm = [] if (isinstance(resp, dict) and resp.get("errors") and not w.dcalls) else ["looser variable type (directive): hook ran / no error: %r %r" % (w.dcalls, resp)]
                flag({"type": w.types[ti - 1], "ti": ti}, "variable-of-a-looser-type-" + where, q, variables, mm, resp)

    def null_nested_ways(w):
        """a null / absent variable at a non-null position inside a list or object literal is never delivered"""
        idx = {render.typeref(t): i for i, t in enumerate(w.types, 1)}
        for tys, q, way in [("[Int!]", "query ($x: Int) { s e%d(a: [1, $x]) }", "null-variable-in-nonnull-list-item"),
                            ("[Int!]!", "query ($x: Int) { s e%d(a: [$x]) }", "null-variable-in-nonnull-list-item"),
                            ("[[Int!]!]!", "query ($x: Int) { s e%d(a: [[1], [$x, 2]]) }", "null-variable-in-nonnull-list-item"),
                            ("In1", "query ($x: Int) { s e%d(a: {r: $x}) }", "null-variable-in-nonnull-input-field"),
                            ("[In1]", "query ($x: Int) { s e%d(a: [{r: $x}]) }", "null-variable-in-nonnull-input-field"),
                            ("In1", "query ($x: Int) { s e%d(a: {r: 1, y: [$x]}) }", "null-variable-in-nonnull-list-item")]:
            ti = idx[tys]
            for variables in ({"x": None}, {}):
                for where in ("field", "directive"):
                    qq = q % ti if where == "field" else q.replace("e%d(", "@p%d(") % ti
                    resp = w.run(qq, variables)
                    st["n"] += 1
                    if where == "field":
                        mm = expect_not_delivered(w, resp, "e%d" % ti, way)
                    else:
                        mm = [] if (isinstance(resp, dict) and resp.get("errors") and not w.dcalls) else ["%s (directive): hook ran / no error: %r %r" % (way, w.dcalls, resp)]
                    flag({"type": w.types[ti - 1], "ti": ti}, way + "-" + where, qq, variables, mm, resp)

    def absent_nested_ways(w):
        """a variable WITHOUT a runtime value at a nullable position inside a literal: a list item becomes null, an object field
        is as if it had not been written (absent, or its default) - also when other variables of the request do have values"""
        idx = {render.typeref(t): i for i, t in enumerate(w.types, 1)}
        plans = [("[Int]", "[1, $x]", "Int", {"a": [1, None]}, {"a": [1, None]}),
                 ("[[Int]]", "[[$x], [2]]", "Int", {"a": [[None], [2]]}, {"a": [[None], [2]]}),
                 ("In1", "{r: 1, x: $x}", "Int", {"a": {"x": 1, "r": 1, "k": 1}}, {"a": {"x": None, "r": 1, "k": 1}}),
                 ("In1", "{r: 1, k: $x}", "Int", {"a": {"x": 1, "r": 1, "k": 1}}, None),
                 ("In2", "{s: $x}", "String", {"a": {"s": "1"}}, {"a": {"s": None}}),
                 ("In2", "{n: {e: $x}}", "E", {"a": {"n": {"s": "1"}, "s": "1"}}, {"a": {"n": {"s": "1", "e": None}, "s": "1"}}),
                 ("[In2]", "[{e: $x}]", "E", {"a": [{"s": "1"}]}, {"a": [{"s": "1", "e": None}]})]
        for tys, lit, vt, exp_absent, exp_null in plans:
            ti = idx[tys]
            for where in ("field", "directive"):
                for other in (False, True):
                    head = "query ($x: %s%s)" % (vt, ", $w: Int" if other else "")
                    extra = " e1(a: $w)" if other else ""
                    target = ("e%d(a: %s)" if where == "field" else "s @p%d(a: %s)") % (ti, lit)
                    q = "%s { %s%s }" % (head, target, extra)
                    for variables, exp in (({"w": 3} if other else {}, exp_absent), (dict({"x": None}, **({"w": 3} if other else {})), exp_null)):
                        if exp is None:
                            continue
                        resp = w.run(q, variables)
                        st["n"] += 1
                        if where == "field":
                            got = [c[2] for c in w.calls if c[0] == "e%d" % ti]
                        else:
                            got = [d[1] for d in w.dcalls]
                        ok = isinstance(resp, dict) and not resp.get("errors") and len(got) == 1 and render.strict_eq(_unordered(got[0]), _unordered(exp))
                        flag({"type": w.types[ti - 1], "ti": ti}, "valueless-variable-at-nullable-nested-position-" + where, q, variables,
                             [] if ok else ["nested variable %s: saw %r, expected %r (%r)" % ("null" if "x" in variables else "without value", got, exp, resp)], resp)

    def single_for_list_ways(w):
        """a single (non-list) literal containing a variable where a list is declared is wrapped, the variable kept"""
        idx = {render.typeref(t): i for i, t in enumerate(w.types, 1)}
        for tys, vt, lit, mkexp in [("[In1]", "Int!", "{r: $x}", lambda v: [{"x": 1, "r": v, "k": 1}]),
                                    ("[[In1]]", "Int!", "[{r: $x}]", lambda v: [[{"x": 1, "r": v, "k": 1}]]),
                                    ("[[In1]]", "Int!", "{r: $x}", lambda v: [[{"x": 1, "r": v, "k": 1}]]),
                                    ("[In2!]!", "String", "{s: $x}", lambda v: [{"s": v}]),
                                    ("[Int]", "Int", "$x", lambda v: [v] if False else v)]:
            ti = idx[tys]
            if lit == "$x":
                continue
            for where in ("field", "directive"):
                q = ("query ($x: %s) { s e%d(a: %s) }" if where == "field" else "query ($x: %s) { s @p%d(a: %s) }") % (vt, ti, lit)
                for val in ((5, 6) if vt.startswith("Int") else ("a", "b")):
                    resp = w.run(q, {"x": val})
                    st["n"] += 1
                    exp = {"a": mkexp(val)}
                    got = (w.calls[-1][2] if where == "field" and w.calls else (w.dcalls[0][1] if w.dcalls else None))
                    ok = isinstance(resp, dict) and not resp.get("errors") and got == exp
                    flag({"type": w.types[ti - 1], "ti": ti}, "single-value-with-variable-for-list-" + where, q, {"x": val},
                         [] if ok else ["single value for a list (%s): saw %r expected %r (%r)" % (where, got, exp, resp)], resp)

    def deep_ways(w):
        """a variable two levels deep in a literal, the same text executed with different values (field and directive positions)"""
        idx = {render.typeref(t): i for i, t in enumerate(w.types, 1)}
        plans = [("[[Int]]", "Int", "[[1, $x]]", lambda v: [[1, v]], [5, 6, 5]),
                 ("[[Int!]!]!", "Int!", "[[$x], [2]]", lambda v: [[v], [2]], [5, 6]),
                 ("In2", "String", "{n: {n: {s: $x}}}", lambda v: {"n": {"n": {"s": v, }, "s": "1"}, "s": "1"}, ["a", "b", "a"]),
                 ("[In1]", "Int", "[{r: 1, y: [2, $x]}]", None, [5, 6]),
                 ("In1", "Int!", "{r: 1, y: [$x]}", lambda v: {"x": 1, "y": [v], "r": 1, "k": 1}, [5, 6, 5])]
        for tys, vt, lit, mkexp, vals in plans:
            ti = idx[tys]
            for q, where in (("query ($x: %s) { s e%d(a: %s) }" % (vt, ti, lit), "field"), ("query ($x: %s) { s @p%d(a: %s) }" % (vt, ti, lit), "directive")):
                for val in vals:
                    resp = w.run(q, {"x": val})
                    st["n"] += 1
                    if mkexp is None:
                        # [In1] with a nullable Int variable inside y: [Int!]: only that the value follows the variable is checked
                        got = (w.calls[0][2] if where == "field" and w.calls else (w.dcalls[0][1] if w.dcalls else None))
                        ok = isinstance(resp, dict) and not resp.get("errors") and got == {"a": [{"x": 1, "y": [2, val], "r": 1, "k": 1}]}
                        mm = [] if ok else ["deep variable (%s): saw %r for $x=%r (%r)" % (where, got, val, resp)]
                    else:
                        exp = {"a": mkexp(val)}
                        got = (w.calls[-1][2] if where == "field" and w.calls else (w.dcalls[0][1] if w.dcalls else None))
                        ok = isinstance(resp, dict) and not resp.get("errors") and got == exp
                        mm = [] if ok else ["deep variable (%s): saw %r expected %r (%r)" % (where, got, exp, resp)]
                    flag({"type": w.types[ti - 1], "ti": ti}, "variable-two-levels-deep-repeated-" + where, q, {"x": val}, mm, resp)

    def on_line(rec):
        if rec["kind"] == "itypes":
            st["w"] = inputworld.InputWorld(rec)
            if cfg.endswith("_0.cfg"):
                deep_ways(st["w"])
                null_nested_ways(st["w"])
                absent_nested_ways(st["w"])
                looser_variable_ways(st["w"])
                single_for_list_ways(st["w"])
            if cfg.endswith("_0.cfg"):
                illtyped_ways(st["w"])
            return
        w = st["w"]
        ti, ty = rec["ti"], rec["type"]
        tys = render.typeref(ty)
        f = "e%d" % ti
        if ti not in st["done_static"]:
            st["done_static"].add(ti)
            static_ways(w, ti, ty)
        k = 0
        st["distinct"].add((ti, repr(rec["v"])))
        v_py = value_py(rec["v"], k)
        # -- literal at a field argument
        q = "{ s %s(a: %s) }" % (f, lit_text(rec["lit"], k))
        resp = w.run(q)
        st["n"] += 1
        if rec["argsLit"]["ok"]:
            mm = expect_args(w, resp, f, expected_args(rec["argsLit"], k), "literal")
        else:
            mm = expect_not_delivered(w, resp, f, "literal")
        flag(rec, "literal", q, None, mm, resp)
        # -- literal at a directive argument
        q = "{ s @p%d(a: %s) }" % (ti, lit_text(rec["lit"], k))
        resp = w.run(q)
        st["n"] += 1
        if rec["argsLit"]["ok"]:
            exp = expected_args(rec["argsLit"], k)
            mm = [] if (isinstance(resp, dict) and not resp.get("errors") and len(w.dcalls) == 1 and render.strict_eq(w.dcalls[0][1], exp)) \
                else ["directive literal: hook saw %r, expected %r (%r)" % (w.dcalls, exp, resp)]
        else:
            mm = [] if (isinstance(resp, dict) and resp.get("errors") and not w.dcalls) else ["directive literal: invalid value but hook ran / no error: %r %r" % (w.dcalls, resp)]
        flag(rec, "directive-literal", q, None, mm, resp)
        # -- the same literal on an element that carries a second directive with its own argument: each hook gets its own dictionary
        if rec["argsLit"]["ok"]:
            other = 2 if ti == 1 else 1          # @p1(a: Int) / @p2(a: Int!)
            for q in ("{ s @p%d(a: %s) @p%d(a: 41) }" % (ti, lit_text(rec["lit"], k), other), "{ s @p%d(a: 41) @p%d(a: %s) }" % (other, ti, lit_text(rec["lit"], k))):
                resp = w.run(q)
                st["n"] += 1
                exp = expected_args(rec["argsLit"], k)
                got = {name: a for name, a in w.dcalls}
                ok = isinstance(resp, dict) and not resp.get("errors") and len(w.dcalls) == 2 and render.strict_eq(got.get("p%d" % ti), exp) and render.strict_eq(got.get("p%d" % other), {"a": 41})
                flag(rec, "directive-literal-beside-another-directive", q, None, [] if ok else ["two directives: hooks saw %r, expected p%d %r and p%d {'a': 41} (%r)" % (w.dcalls, ti, exp, other, resp)], resp)
        # -- through a variable of the declared type (field and directive)
        q = "query ($a: %s) { s %s(a: $a) }" % (tys, f)
        resp = w.run(q, {"a": v_py})
        st["n"] += 1
        mm = refused_ok(resp, w) if rec["refused"] else expect_args(w, resp, f, expected_args(rec["argsVar"], k), "variable")
        flag(rec, "variable", q, {"a": v_py}, mm, resp)
        if not rec["refused"]:
            q = "query ($a: %s) { s @p%d(a: $a) }" % (tys, ti)
            resp = w.run(q, {"a": v_py})
            st["n"] += 1
            exp = expected_args(rec["argsVar"], k)
            mm = [] if (isinstance(resp, dict) and not resp.get("errors") and len(w.dcalls) == 1 and render.strict_eq(w.dcalls[0][1], exp)) \
                else ["directive variable: hook saw %r, expected %r (%r)" % (w.dcalls, exp, resp)]
            flag(rec, "directive-variable", q, {"a": v_py}, mm, resp)
        # -- through a variable / a variable default of a subscription: the source stream and the per-event resolver of the
        #    root field both receive the coerced value
        if not rec["refused"]:
            for q, vs, way in (("subscription ($a: %s) { u%d(a: $a) }" % (tys, ti), {"a": v_py}, "subscription-variable"),
                               ("subscription ($a: %s = %s) { u%d(a: $a) }" % (tys, lit_text(rec["lit"], k), ti), {}, "subscription-variable-default")):
                if way.endswith("default") and rec["v"]["t"] == "N":
                    continue
                resp = w.run_sub(q, vs)
                st["n"] += 1
                exp = expected_args(rec["argsVar"], k)
                src = [c[2] for c in w.calls if c[0] == "u%d-source" % ti]
                per = [c[2] for c in w.calls if c[0] == "u%d" % ti]
                ok = isinstance(resp, dict) and not resp.get("errors") and len(src) == 1 and len(per) == 1 and render.strict_eq(src[0], exp) and render.strict_eq(per[0], exp)
                flag(rec, way, q, vs, [] if ok else ["%s: source saw %r, event resolver saw %r, expected %r (%r)" % (way, src, per, exp, resp)], resp)
        # -- as the default value of a variable that is not provided
        if rec["v"]["t"] != "N":
            q = "query ($a: %s = %s) { s %s(a: $a) }" % (tys, lit_text(rec["lit"], k), f)
            resp = w.run(q, {})
            st["n"] += 1
            if rec["refused"]:
                mm = expect_not_delivered(w, resp, f, "variable-default")
            else:
                mm = expect_args(w, resp, f, expected_args(rec["argsVar"], k), "variable-default")
            flag(rec, "variable-default", q, {}, mm, resp)
        # -- a variable inside a list literal / object literal
        if rec["viaList"]:
            q = "query ($x: %s) { s %s(a: [$x]) }" % (render.typeref(inner_item_type(ty)), f)
            xv = value_py(rec["v"]["v"][0], k)
            resp = w.run(q, {"x": xv})
            st["n"] += 1
            flag(rec, "variable-in-list", q, {"x": xv}, expect_args(w, resp, f, expected_args(rec["argsVar"], k), "variable-in-list"), resp)
            # the same text again with another value of the variable (per-document caches must not freeze it),
            # also two levels deep and at a directive argument
            xv2 = value_py(rec["v"]["v"][0], 1)
            exp2 = expected_args(rec["argsVar"], 1)
            for q2, where in (("query ($x: %s) { s %s(a: [$x]) }" % (render.typeref(inner_item_type(ty)), f), "field"),
                              ("query ($x: %s) { s @p%d(a: [$x]) }" % (render.typeref(inner_item_type(ty)), ti), "directive")):
                for val, exp in ((xv, expected_args(rec["argsVar"], k)), (xv2, exp2), (xv, expected_args(rec["argsVar"], k))):
                    resp = w.run(q2, {"x": val})
                    st["n"] += 1
                    if where == "field":
                        mm2 = expect_args(w, resp, f, exp, "variable-in-list-repeated")
                    else:
                        mm2 = [] if (isinstance(resp, dict) and not resp.get("errors") and len(w.dcalls) == 1 and render.strict_eq(w.dcalls[0][1], exp)) \
                            else ["directive variable-in-list-repeated: hook saw %r, expected %r (%r)" % (w.dcalls, exp, resp)]
                    flag(rec, "variable-in-list-repeated-" + where, q2, {"x": val}, mm2, resp)
        if rec["viaObj"]:
            q = "query ($x: Int!) { s %s(a: {r: $x}) }" % f
            xv = value_py(rec["v"]["v"][0][1], k)
            resp = w.run(q, {"x": xv})
            st["n"] += 1
            flag(rec, "variable-in-object", q, {"x": xv}, expect_args(w, resp, f, expected_args(rec["argsVar"], k), "variable-in-object"), resp)
        if len(st["samples"]) < 2 and st["n"] % 501 < 7 and rec["viaList"]:
            st["samples"].append({"type": tys, "value": repr(v_py), "literal": lit_text(rec["lit"], k), "expected_args": rec["argsVar"], "ways": "literal, directive literal, variable, directive variable, variable default, variable in list"})

    res = tlc.run("MC_vars.tla", cfg, on_line=on_line, workers=1, timeout=1500)
    return {"job": j, "tlc": [genrun.tlc_summary(cfg, res)], "evaluations": st["n"], "distinct": [list(map(str, d)) for d in st["distinct"]],
            "samples": st["samples"], "violations": st["viol"]}


def main(argv):
    rep = common.Report("C05")
    rep.rule = ("cases = (argument type among 66, candidate value) x ways of supplying it (field literal, directive literal, variable, directive variable, variable default, "
                "variable inside list literal, variable inside object literal) + per type: schema default, omitted, null literal, null variable, absent variable; "
                "distinct_nontrivial = distinct (type, value) cells")
    rep.assumptions = ["stand-in parser", "ill-typed literals may be refused by validation or fail the field: the check only requires an error and that the value is never delivered",
                       "ill-typed variable usages are C07's domain"]
    results = genrun.run_jobs("checks.c05", "job", [{"cfg": "MC_ways_%d.cfg" % p} for p in range(PARTS)])
    bad = genrun.merge(rep, results)
    rc = rep.finish()
    if bad:
        for b in bad:
            print("MACHINERY-ERROR %s: %s" % (b["job"], b["machinery_error"][-2000:]))
        return 2
    return rc
