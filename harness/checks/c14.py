"""C14 — subscriptions answer every source event once, in order.
R1: R1_Sub + SubProgress (TLC, Subscription.tla via MC_sub).  R2: every (document, event
sequence, produce/pull interleaving) is driven through engine.subscribe()."""
import common, genrun, tlc, render
from execworld import World
import subreplay


def job(j):
    cfg = j["cfg"]
    st = {"world": None, "n": 0, "viol": [], "distinct": set(), "samples": []}

    def on_line(rec):
        if rec["kind"] == "schema":
            if st["world"] is None:
                st["world"] = World(rec["types"], rec["roots"])
            return
        st["n"] += 1
        run = subreplay.SubRun(st["world"], rec)
        mm = run.run()
        if len(rec["events"]) >= 2:
            st["distinct"].add(hash(run.doc.text + repr(rec["events"]) + repr(rec["actions"]) + repr(rec["given"])))
        if len(st["samples"]) < 1 and len(rec["events"]) >= 2 and any(rec["events"]):
            st["samples"].append({"query": run.doc.text, "variables": subreplay.variables_py(rec["given"]), "events": rec["events"],
                                  "actions": rec["actions"], "expected_responses": [render.value_py(o["data"]) if o["cls"] == "exec" else o["cls"] for o in rec["out"]]})
        if mm and len(st["viol"]) < 400:
            genrun.add_viol(st["viol"], ({"kind": "sub-mismatch", "config": cfg, "refused": rec["refused"] + ("/" + run.invalidation if run.invalidation else ""), "first": mm[0][:140]},
                               {"case": rec, "query": run.doc.text, "mismatches": mm}))

    res = tlc.run("MC_sub.tla", cfg, on_line=on_line, workers=1, timeout=3000)
    return {"job": j, "tlc": [genrun.tlc_summary(cfg, res)], "evaluations": st["n"], "distinct": list(st["distinct"]),
            "samples": st["samples"], "violations": st["viol"]}


def main(argv):
    rep = common.Report("C14")
    rep.rule = ("cases = (subscription document, variables, event sequence with per-event resolver data incl. failures/nulls, interleaving of "
                "event production / consumer pulls / source end), plus requests refused by validation or variable coercion; "
                "distinct_nontrivial = distinct cases with >= 2 events")
    rep.assumptions = ["stand-in parser", "the source stream is a harness-owned async generator whose events are made available on demand"]
    cfgs = ["MC_sub_2.cfg", "MC_sub_3.cfg", "MC_sub_frag.cfg", "MC_sub_fragd.cfg"]
    if common.tier() == "thorough":
        cfgs += ["MC_sub_2_big.cfg", "MC_sub_3_big.cfg"]
    results = genrun.run_jobs("checks.c14", "job", [{"cfg": c} for c in cfgs])
    bad = genrun.merge(rep, results)
    rc = rep.finish()
    if bad:
        for b in bad:
            print("MACHINERY-ERROR %s: %s" % (b["job"], b["machinery_error"][-2000:]))
        return 2
    return rc
