"""C09 — mutation root fields run serially, in document order (R1_Serial + replay)."""
import common
from checks import c08

FLAGS = ["cc", "cs", "sc", "ss", "mc", "ms"]


def main(argv):
    cfgs = ["MC_sched_m_%s.cfg" % f for f in FLAGS] + ["MC_sched_mq_%s.cfg" % f for f in FLAGS] + ["MC_sched_ma_%s.cfg" % f for f in ("cc", "ss", "mc")] + ["MC_sched_mcs_cc.cfg", "MC_sched_mcs_ss.cfg"]
    if common.tier() == "thorough":
        cfgs += ["MC_sched_mz_%s.cfg" % f for f in FLAGS]
    return c08.main(argv, pid="C09", cfgs=cfgs, serial=True)
