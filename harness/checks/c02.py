"""C02 — failure containment: null propagation and error accounting.
R1: R1_Faults (TLC, MC_faults).  R2: every (document, fault set) case replayed."""
import os
import common, genrun, tlc, render
from execworld import World
import execreplay

QUICK = ["MC_faults_layout.cfg", "MC_faults_nested.cfg", "MC_faults_abstract.cfg", "MC_faults_pairs.cfg",
         "MC_faults_mut.cfg", "MC_faults_args.cfg", "MC_faults_s2.cfg", "MC_faults_s2g.cfg", "MC_faults_cs.cfg", "MC_faults_csm.cfg", "MC_faults_gd.cfg"]
THOROUGH = QUICK + ["MC_faults_layout3.cfg", "MC_faults_nested4.cfg"]
ENGINE_CFGS = [{}, {"list_conc": False, "parent_conc": False, "field_parent_conc": False, "args": "sync"},
               {"list_conc": False}, {"field_parent_conc": False}]


def N(k, parent, name, alias="", optype=""):
    return {"k": k, "parent": parent, "name": name, "alias": alias, "cond": "", "args": [], "dirs": [], "vdefs": [], "optype": optype, "ptype": ""}


def shared_exception_job(j):
    """one dimension the enumeration cannot express: the SAME exception object raised at two positions
    (in one request and across two requests).  Every nulled position must still be explained by an error
    carrying its own path."""
    from base import main_loop
    from execworld import CaseState
    st = {"world": None}

    def on_line(rec):
        if rec["kind"] == "schema" and st["world"] is None:
            st["world"] = World(rec["types"], rec["roots"])
            raise StopIteration
    res = tlc.run("MC_faults.tla", "MC_faults_layout.cfg", on_line=on_line, workers=1, simulate=1, depth=2, seed=1, timeout=300)
    w = st["world"]
    eng = w.engine({})
    viol = []
    n = 0
    for lib in (False, True):
        shared = (w.lib_error or __import__("execworld")._lib_error_cls())("shared", {"code": "shared"}) if lib else RuntimeError("shared")

        class Raiser:
            def value(self, t, path, depth=0):
                raise shared
        docs = [[N("OP", 0, "", optype="query"), N("F", 1, "s"), N("F", 1, "s", alias="z")],
                [N("OP", 0, "", optype="query"), N("F", 1, "i")]]
        seen_paths = []
        for nodes in docs:
            n += 1
            doc = render.DocText(nodes)
            cs = CaseState({})
            cs.adversary = Raiser()
            cs.ctx = {"__cs": cs}
            resp = main_loop().run(eng.execute(doc.text, context=cs.ctx))
            keys = [x["alias"] or x["name"] for x in nodes if x["k"] == "F"]
            paths = [tuple(e.get("path") or ()) for e in resp.get("errors") or []]
            mm = []
            for k in keys:
                if (resp.get("data") or {}).get(k, "missing") is not None:
                    mm.append("field %s should be null" % k)
                if (k,) not in paths:
                    mm.append("nulled position [%s] is not explained by an error with its path (error paths %s)" % (k, paths))
            if mm:
                genrun.add_viol(viol, ({"kind": "shared-exception-object", "library_error": lib, "across_requests": len(keys) == 1, "first": mm[0][:100]},
                                       {"query": doc.text, "response": repr(resp), "mismatches": mm}))
    return {"job": j, "tlc": [], "evaluations": n, "distinct": [], "samples": [], "violations": viol}


def job(j):
    if j.get("kind") == "shared-exception":
        return shared_exception_job(j)
    cfg = j["cfg"]
    st = {"world": None, "n": 0, "viol": [], "distinct": set(), "samples": []}

    def on_line(rec):
        if rec["kind"] == "schema":
            if st["world"] is None:
                st["world"] = World(rec["types"], rec["roots"])
            return
        st["n"] += 1
        ecfg = ENGINE_CFGS[st["n"] % len(ENGINE_CFGS)]
        resp, cs, doc = execreplay.run_plain(st["world"], rec, ecfg, layout=st["n"] % 2)
        mm = execreplay.compare_faults(rec, resp, cs, doc)
        st["distinct"].add(hash(execreplay.fault_class(rec)))
        if len(st["samples"]) < 2 and len(rec["overlay"]) >= 1 and st["n"] % 97 == 3:
            st["samples"].append({"query": doc.text, "faults": rec["overlay"], "expected_data": render.value_py(rec["data"]),
                                  "expected_error_paths": [e["path"] for e in rec["errs"]], "response": resp})
        if mm and len(st["viol"]) < 400:
            kinds = sorted(o["o"] for _, o in rec["overlay"])
            genrun.add_viol(st["viol"], ({"kind": "fault-mismatch", "config": cfg, "fault_kinds": kinds, "first": mm[0][:120]},
                               {"case": rec, "query": doc.text, "engine_cfg": ecfg, "mismatches": mm, "response": resp}))

    res = tlc.run("MC_faults.tla", cfg, on_line=on_line, workers=j.get("workers", 1), timeout=3000)
    return {"job": j, "tlc": [genrun.tlc_summary(cfg, res)], "evaluations": st["n"],
            "distinct": list(st["distinct"]), "samples": st["samples"], "violations": st["viol"]}


def main(argv):
    rep = common.Report("C02", level="fault_enumeration")
    rep.rule = ("cases = (valid document, operation, variables) x every single fault point of the fault-free response tree x "
                "every applicable failure kind, then all pairs (configs with MaxFaults=2); distinct_nontrivial = distinct "
                "(failure kinds, depth, inside-list?, which position is nulled) classes")
    rep.assumptions = ["stand-in parser replaces libgraphqlparser", "fresh exception object per raise (shared exception objects: see known finding F9)",
                       "4 engine configurations (concurrent / sequential lists and parents, gather / sync argument coercion) rotated over the cases"]
    cfgs = THOROUGH if common.tier() == "thorough" else QUICK
    results = genrun.run_jobs("checks.c02", "job", [{"cfg": c} for c in cfgs] + [{"kind": "shared-exception"}])
    bad = genrun.merge(rep, results)
    rc = rep.finish()
    if bad:
        for b in bad:
            print("MACHINERY-ERROR %s: %s" % (b["job"], b["machinery_error"][-2000:]))
        return 2
    return rc
