"""C18 — execute always answers with a well-formed GraphQL response.
R1: ErrorClassesRunNothing / Transparent on Engine.tla (TLC).  R2: operation-selection x
variables matrix x error coercers x contexts.  R3 (main): mutated / random query texts;
every recorded response is judged by TLC (Trace_resp: Envelope, refused-runs-nothing,
coercer-once)."""
import json
import random
import common, genrun, tlc, render, project, tracecheck, gqlstub
from base import main_loop
from execworld import World, CaseState, table_of, variables_py
import execreplay
from checks import c16

STATE = {"n": 0, "returned": []}


async def tagging_coercer(exception, error):
    STATE["n"] += 1
    out = {"message": "tag%d:%s" % (STATE["n"], error.get("message")), "path": error.get("path"), "locations": error.get("locations", []),
           "extensions": {"k": STATE["n"]}}
    STATE["returned"].append(out)
    return out


async def mutating_coercer(exception, error):
    STATE["n"] += 1
    error["message"] = "mut:" + str(error.get("message"))
    if isinstance(error.get("extensions"), dict):
        error["extensions"]["touched_by_coercer"] = True       # the documented way of enriching an error, in place
    STATE["returned"].append(error)
    return error


async def redacting_coercer(exception, error):
    """hides everything: returns a new, empty (falsy) dictionary - still the value that must appear in `errors`"""
    STATE["n"] += 1
    out = {}
    STATE["returned"].append(out)
    return out


async def counting_coercer(exception, error):
    STATE["n"] += 1
    STATE["returned"].append(error)
    return error


COERCERS = [("default", None), ("tagging", tagging_coercer), ("mutating", mutating_coercer), ("redacting", redacting_coercer)]


def matrix_job(j):
    st = {"world": None, "docs": None, "texts": None, "n": 0, "viol": [], "distinct": set(), "samples": []}
    contexts = [None, {"a": 1}, object()]

    def on_line(rec):
        if rec["kind"] == "schema":
            if st["world"] is None:
                st["world"] = World(rec["types"], rec["roots"])
            return
        if rec["kind"] == "docs":
            st["docs"] = rec["docs"]
            st["texts"] = {d: render.DocText(v["nodes"]) for d, v in rec["docs"].items()}
            return
        entry = rec["log"][0]
        for cname, co in COERCERS:
            eng = st["world"].engine({"tag": "env-" + cname, **({"coercer": co} if co else {})})
            for ci, ctx0 in enumerate(contexts):
                st["n"] += 1
                doc = st["texts"][entry["doc"]]
                q = doc.text if entry["spelling"] == "str" else doc.text.encode("utf-8")
                cs = CaseState(table_of(entry["calls"]))
                cs.ctx = ctx0
                st["world"].case = cs
                STATE["n"] = 0
                STATE["returned"] = []
                opn = entry["opName"] or None
                if opn == "Zzz" and ci == 2:
                    opn = 5            # a non-string operation name is an unknown name
                try:
                    resp = main_loop().run(eng.execute(q, operation_name=opn, context=ctx0, variables=variables_py(entry["given"]) if (entry["given"] or ci) else None))
                except BaseException as e:
                    resp = {"__raised__": repr(e)}
                st["world"].case = None
                mm = c16.check_entry(entry, resp, cs, doc) if cname == "default" else []
                if cname in ("default", "tagging") and isinstance(resp, dict):
                    for e in resp.get("errors") or []:
                        ext = e.get("extensions") if isinstance(e, dict) else None
                        if isinstance(ext, dict) and "touched_by_coercer" in ext:
                            mm.append("an error reported through the %s coercer carries what another engine's coercer wrote into an earlier error: %r" % (cname, ext))
                if cname != "default" and isinstance(resp, dict):
                    errs = resp.get("errors") or []
                    if STATE["n"] != len(errs):
                        mm.append("error coercer awaited %d times for %d reported errors" % (STATE["n"], len(errs)))
                    if len(errs) != len(STATE["returned"]) or any(a is not b for a, b in zip(errs, STATE["returned"])):
                        mm.append("errors are not the coercer's return values: %r vs %r" % (errs, STATE["returned"]))
                    if (resp.get("data") is None) != (entry["cls"] != "exec" or entry["data"]["t"] == "N"):
                        mm.append("data nullness differs under a custom coercer")
                if not isinstance(resp, dict) or "__raised__" in resp:
                    mm.append("execute raised / non-dict %r" % (resp,))
                st["distinct"].add((entry["doc"], entry["spelling"], entry["opName"], json.dumps(entry["given"]), cname, ci))
                if mm and len(st["viol"]) < 400:
                    genrun.add_viol(st["viol"], ({"kind": "envelope-matrix", "cls": entry["cls"], "coercer": cname, "first": mm[0][:140]},
                                       {"entry": entry, "mismatches": mm, "response": repr(resp)[:2000]}))
        if len(st["samples"]) < 2 and entry["cls"] in ("opselect", "varcoerce"):
            st["samples"].append({"query": st["texts"][entry["doc"]].text, "operation_name": entry["opName"], "variables": variables_py(entry["given"]), "class": entry["cls"]})

    res = tlc.run("MC_cache.tla", "MC_env.cfg", on_line=on_line, workers=1, timeout=600)
    return {"job": j, "tlc": [genrun.tlc_summary("MC_env.cfg", res)], "evaluations": st["n"], "distinct": [list(map(str, d)) for d in st["distinct"]],
            "samples": st["samples"], "violations": st["viol"]}


# ---- R3: text mutation ------------------------------------------------------------------------
PUNCT = list("{}()[]:!$@=|&") + ["...", '"', '"""', "#", ",", "\\", "﻿", "\u0000", " ", "é", "☃", "\t", "\r\n", "\r", "-", "1e400", "0x1", "01", "1.", ".5", "query", "fragment", "on", "null", "true"]


def tokens_of(text):
    import re
    return re.findall(r"\.\.\.|[A-Za-z_][A-Za-z_0-9]*|-?\d+(?:\.\d+)?|\"[^\"\n]*\"|\s+|.", text, re.S)


def mutate(rng, text):
    toks = tokens_of(text)
    for _ in range(rng.choice([1, 1, 1, 2, 3, 6])):
        if not toks:
            break
        k = rng.randrange(8)
        i = rng.randrange(len(toks))
        if k == 0:
            del toks[i]
        elif k == 1:
            toks.insert(i, toks[i])
        elif k == 2:
            jx = rng.randrange(len(toks))
            toks[i], toks[jx] = toks[jx], toks[i]
        elif k == 3:
            toks.insert(i, rng.choice(PUNCT))
        elif k == 4:
            toks[i] = rng.choice(PUNCT)
        elif k == 5:
            toks = toks[:i]
        elif k == 6:
            toks.insert(i, rng.choice(["\n", "\n\n", " # c\n", '"""b\nl"""', '"a\\u00e9\\n"']))
        else:
            toks.insert(i, "".join(chr(rng.choice([rng.randrange(32), rng.randrange(32, 127), rng.randrange(127, 0x3000), rng.randrange(0x10000, 0x10100)])) for _ in range(rng.randrange(1, 4))))
    return "".join(toks)


SPECIALS = ["", " ", "\n", "{", "}", "{}", "{ s ", "# c", "﻿", "﻿{ s }", "{ s }\n\n\n", "{ " + "o { " * 60 + "s" + " }" * 61, "{ " + "o { " * 400,
            "query", "query {", "{ s } { s }", "query A { s } query A { s }", "fragment F on Query { s }", "{ ...F }", "{ s @skip }", "{ s(a: 1) }",
            '{ f(b: """x\n  y""") }', '{ f(b: "\\u00e9\\ud83d") }', "{ f(a: 99999999999999999999) }", "{ f(a: 1e400) }", "{ s: s: s }", "{ __typename }",
            "{ __schema { types { name } } }", "mutation { m3 }", "subscription { evs }", "query ($v: Boolean!) { s @skip(if: $v) }", "type Query { s: String }", "{ s }\x00{"]


def text_job(j):
    rng = random.Random(j["seed"])
    st = {"world": None, "cases": []}

    def on_line(rec):
        if rec["kind"] == "schema":
            if st["world"] is None:
                st["world"] = World(rec["types"], rec["roots"])
            return
        if len(st["cases"]) < j["max_cases"]:
            st["cases"].append(rec)
        elif len(st["cases"]) >= j["max_cases"]:
            raise StopIteration
    res = tlc.run("MC_exec.tla", "MC_exec_sim.cfg", on_line=on_line, workers=1, simulate=j["behaviours"], depth=40, seed=j["seed"], timeout=1500)
    w = st["world"]
    engines = [w.engine({"tag": "txt-count", "coercer": counting_coercer}), w.engine({"tag": "txt-tag", "coercer": tagging_coercer}),
               w.engine({"tag": "txt-nocache", "coercer": counting_coercer, "cache": None})]
    seeds = [render.DocText(c["nodes"], layout=i % 2).text for i, c in enumerate(st["cases"])]
    texts = list(SPECIALS) if j["seed"] % 4 == 1 else []
    for s in seeds:
        for _ in range(j["per_seed"]):
            texts.append(mutate(rng, s))
    records, meta, tid = [], {}, 0
    seen = set()
    for t in texts:
        variants = [t]
        r = rng.random()
        if r < 0.25:
            variants = [t.encode("utf-8", "surrogatepass")]
        elif r < 0.3:
            b = t.encode("utf-8", "surrogatepass")
            cut = rng.randrange(len(b) + 1)
            variants = [b[:cut] + bytes([rng.choice([0xff, 0xc0, 0x80, 0xfe])]) + b[cut:]]
        for q in variants:
            tid += 1
            try:
                # the parser boundary is a C string: the engine's parser sees the text up to the first NUL
                qb = q.encode("utf-8", "surrogatepass") if isinstance(q, str) else q
                gqlstub.parse_to_json(qb.split(b"\x00")[0])
                cls = "any"
            except Exception:
                cls = "broken"
            cs = CaseState({})
            cs.adversary = None
            cs.table = {}
            w.case = cs
            STATE["n"] = 0
            STATE["returned"] = []
            eng = engines[tid % len(engines)]
            opn = rng.choice([None, None, None, "Q1", "Nope", ""])
            var = rng.choice([None, {}, {"v": True, "w": False, "m": 1}, {"v": None}, {"zz": 1}])
            try:
                resp = main_loop().run(eng.execute(q, operation_name=opn, variables=var, context=rng.choice([None, {}])))
            except BaseException as e:
                resp = {"__raised__": repr(e)}
            w.case = None
            records.append({"tid": tid, "nodes": [], "op": 0, "vars": [], "cls": cls, "geom": project.geometry(q),
                            "resp": project.response(resp), "ncalls": len(cs.calls), "coercerCalls": STATE["n"]})
            meta[tid] = {"query": repr(q)[:1500], "operation_name": opn, "variables": var, "response": repr(resp)[:1500], "class": cls}
            seen.add(hash(q))
    verdicts, tres = tracecheck.judge("Trace_resp.tla", "Trace_resp.cfg", records)
    viol = []
    nbroken = sum(1 for r in records if r["cls"] == "broken")
    for r in records:
        ok, clause = verdicts[r["tid"]]
        if not ok and len(viol) < 400:
            genrun.add_viol(viol, ({"kind": "trace-rejected", "clause": clause, "class": r["cls"]}, {"record": r, "meta": meta[r["tid"]]}))
    return {"job": j, "tlc": [genrun.tlc_summary("MC_exec_sim.cfg(simulate seed=%d)" % j["seed"], res, exhaustive=False), genrun.tlc_summary("Trace_resp.cfg", tres)],
            "evaluations": len(records), "traces": len(records), "distinct": list(seen), "samples": [meta[t] for t in list(meta)[5:7]], "violations": viol,
            "extra": {"texts_rejected_by_parser": nbroken, "texts_parsed": len(records) - nbroken}}


def faults_job(j):
    """valid requests with failing resolvers (incl. library errors carrying extensions): the envelope of field errors"""
    st = {"world": None, "cases": []}

    def on_line(rec):
        if rec["kind"] == "schema":
            if st["world"] is None:
                st["world"] = World(rec["types"], rec["roots"])
            return
        if len(st["cases"]) < j["max_cases"]:
            st["cases"].append(rec)
        elif len(st["cases"]) >= j["max_cases"]:
            raise StopIteration
    fcfg = j.get("cfg", "MC_faults_sim.cfg")
    if j.get("exhaustive"):
        # a small configuration enumerated exhaustively (arguments guarded by a raising directive, incl. a refused DEFAULT: the error must
        # still be located inside the query text)
        res = tlc.run("MC_faults.tla", fcfg, on_line=on_line, workers=1, timeout=1500)
    else:
        res = tlc.run("MC_faults.tla", fcfg, on_line=on_line, workers=1, simulate=j["behaviours"], depth=40, seed=j["seed"], timeout=1500)
    w = st["world"]
    engines = [w.engine({"tag": "flt-count", "coercer": counting_coercer}), w.engine({"tag": "flt-seq", "coercer": counting_coercer, "list_conc": False, "field_parent_conc": False})]
    records, meta = [], {}
    for tid, case in enumerate(st["cases"], 1):
        doc = render.DocText(case["nodes"], layout=tid % 2)
        cs = CaseState(table_of(case["calls"]))
        cs.ctx = {"__cs": cs}
        STATE["n"] = 0
        STATE["returned"] = []
        try:
            resp = main_loop().run(engines[tid % 2].execute(doc.text, operation_name=execreplay.op_name(case), context=cs.ctx, variables=variables_py(case["given"])))
        except BaseException as e:
            resp = {"__raised__": repr(e)}
        records.append({"tid": tid, "nodes": case["nodes"], "op": case["op"], "vars": case["cvars"], "cls": "exec", "geom": project.geometry(doc.text),
                        "resp": project.response(resp), "ncalls": len(cs.calls), "coercerCalls": STATE["n"]})
        meta[tid] = {"query": doc.text, "faults": case["overlay"], "response": repr(resp)[:1200]}
    verdicts, tres = tracecheck.judge("Trace_resp.tla", "Trace_resp.cfg", records)
    viol = []
    for r in records:
        ok, clause = verdicts[r["tid"]]
        if not ok and len(viol) < 400:
            genrun.add_viol(viol, ({"kind": "trace-rejected", "clause": clause, "class": "faulty-exec"}, {"record": r, "meta": meta[r["tid"]]}))
    return {"job": j, "tlc": [genrun.tlc_summary("%s(%s)" % (fcfg, "first %d cases" % j["max_cases"] if j.get("exhaustive") else "simulate seed=%d" % j["seed"]), res, exhaustive=False), genrun.tlc_summary("Trace_resp.cfg", tres)],
            "evaluations": len(records), "traces": len(records), "distinct": [hash(meta[t]["query"] + repr(meta[t]["faults"])) for t in meta],
            "samples": [meta[t] for t in list(meta)[2:3]], "violations": viol, "extra": {"faulty_requests": len(records)}}


def refusals_job(j):
    """refused introspection requests of different layouts, in every order of three, on one engine: each response is a trace
    judged by TLC (Envelope: the error's location lies inside THIS request's text; the coercer is awaited once per error)"""
    import itertools
    import introworld
    eng = introworld.cook(error_coercer=counting_coercer)
    records, meta, tid = [], {}, 0
    # (the multi-line layouts come first: whatever a defect remembers from the first refusal then lies outside the one-line texts)
    for seq in itertools.permutations([1, 3, 0, 2, 4], 3):
        for k in seq:
            text, key, token = introworld.REFUSED[k]
            tid += 1
            STATE["n"] = 0
            STATE["returned"] = []
            try:
                resp = main_loop().run(eng.execute(text))
            except BaseException as e:
                resp = {"__raised__": repr(e)}
            records.append({"tid": tid, "nodes": [], "op": 0, "vars": [], "cls": "any", "geom": project.geometry(text),
                            "resp": project.response(resp), "ncalls": 0, "coercerCalls": STATE["n"]})
            meta[tid] = {"query": text, "response": repr(resp)[:1200], "earlier": [introworld.REFUSED[x][0] for x in seq]}
    verdicts, tres = tracecheck.judge("Trace_resp.tla", "Trace_resp.cfg", records)
    viol = []
    for r in records:
        ok, clause = verdicts[r["tid"]]
        if not ok:
            genrun.add_viol(viol, ({"kind": "trace-rejected", "clause": clause, "class": "refused-introspection"}, {"record": r, "meta": meta[r["tid"]]}))
    return {"job": j, "tlc": [genrun.tlc_summary("Trace_resp.cfg(refusals)", tres)], "evaluations": len(records), "traces": len(records), "distinct": [],
            "samples": [], "violations": viol, "extra": {"refused_introspection_traces": len(records)}}


def job(j):
    if j["kind"] == "refusals":
        return refusals_job(j)
    if j["kind"] == "faults":
        return faults_job(j)
    return matrix_job(j) if j["kind"] == "matrix" else text_job(j)


def main(argv):
    rep = common.Report("C18")
    thorough = common.tier() == "thorough"
    rep.rule = ("cases = (a) every request of the operation-selection x variables matrix of Engine.tla x 4 error coercers (default, replacing, modifying in place, returning an empty dictionary) x 3 contexts, (b) mutated texts "
                "(token delete/duplicate/swap/insert, truncation, control/unicode characters, BOM, block strings, deep nesting, str/bytes, invalid UTF-8) seeded "
                "from TLC-generated documents x operation names x variables objects; each response is one trace judged by TLC; distinct_nontrivial = distinct texts by hash + distinct matrix cells")
    rep.assumptions = ["the syntax level is the stand-in parser's, not libgraphqlparser's (absent from the sandbox)", "text geometry is measured in characters after UTF-8 decoding (errors=replace)"]
    n = 16 if thorough else 6
    jobs = [{"kind": "matrix"}] + [{"kind": "text", "seed": common.seed() * 100 + k + 1, "behaviours": 800 if thorough else 300,
                                    "max_cases": 400 if thorough else 120, "per_seed": 40 if thorough else 15} for k in range(n)]
    jobs += [{"kind": "faults", "seed": common.seed() * 100 + 91 + k, "behaviours": 1500 if thorough else 500, "max_cases": 1500 if thorough else 300} for k in range(4 if thorough else 2)]
    jobs.append({"kind": "refusals"})
    jobs.append({"kind": "faults", "cfg": "MC_faults_gd.cfg", "exhaustive": True, "seed": 0, "behaviours": 0, "max_cases": 20000 if thorough else 4000})
    results = genrun.run_jobs("checks.c18", "job", jobs)
    bad = genrun.merge(rep, results)
    rep.exhaustive = False
    rc = rep.finish()
    if bad:
        for b in bad:
            print("MACHINERY-ERROR %s: %s" % (b["job"], b["machinery_error"][-2000:]))
        return 2
    return rc
