"""C03 — returned data conforms to schema and selection whatever resolvers return.
R1: MC_exec invariants on the simulated generator.  R3 (main): documents drawn by TLC in
simulation mode are executed with adversarial resolver return values; every recorded
response is judged by TLC with Conform.tla (Trace_resp)."""
import json
import common, genrun, tlc, render, project, tracecheck
from base import main_loop
from execworld import World, CaseState
from adversary import Adversary
import execreplay

COUNT = {"n": 0}


async def counting_coercer(exception, error):
    COUNT["n"] += 1
    return error


def N(k, parent, name, optype=""):
    return {"k": k, "parent": parent, "name": name, "alias": "", "cond": "", "args": [], "dirs": [], "vdefs": [], "optype": optype, "ptype": ""}


class StrIs:
    """an object that is not a string but whose str() is the given text (e.g. the name of an enum value)"""
    def __init__(self, text):
        self.text = text

    def __str__(self):
        return self.text

    def __repr__(self):
        return "StrIs(%r)" % self.text


class Fixed:
    """adversary returning one chosen value at one path, well-typed values elsewhere"""
    def __init__(self, world, target, val):
        self.inner = Adversary(world, 1, p_good=1.1)
        self.target = target
        self.val = val

    def value(self, t, path, depth=0):
        if path == self.target:
            return self.val
        return self.inner.good(t, path, depth)


def cells_job(j):
    """every leaf-typed field of the covering schema x every token representative (alone, inside a list, under a nullable/non-null parent)"""
    import tokens
    st = {"world": None}

    def on_line(rec):
        if rec["kind"] == "schema" and st["world"] is None:
            st["world"] = World(rec["types"], rec["roots"])
    res = tlc.run("MC_exec.tla", "MC_exec_basic.cfg", on_line=on_line, workers=1, simulate=1, depth=2, seed=1, timeout=300)
    w = st["world"]
    eng = w.engine({"coercer": counting_coercer})
    docs = []
    for f in ["s", "sn", "i", "e", "le", "ls", "fl", "lfl", "idf", "bo", "lln", "lo", "lnn", "p", "u", "lu", "o", "on", "nl", "ll"]:
        fd = w.types["Query"]["fields"][f]
        named = fd["type"][-1]
        nodes = [N("OP", 0, "", "query"), N("F", 1, f)]
        if w.types[named]["kind"] in ("OBJECT", "INTERFACE"):
            nodes.append(N("F", 2, "s"))
        elif w.types[named]["kind"] == "UNION":
            nodes.append(N("F", 2, "__typename"))
        if w.types[named]["kind"] == "INTERFACE":
            nodes.append(N("F", 2, "__typename"))
        docs.append((f, nodes, [f]))
    for f in ["s", "sn", "i", "e"]:
        docs.append(("o." + f, [N("OP", 0, "", "query"), N("F", 1, "o"), N("F", 2, f)], ["o", f]))
        docs.append(("lnn." + f, [N("OP", 0, "", "query"), N("F", 1, "lnn"), N("F", 2, f)], ["lnn", "#0", f]))
    vals = []
    for tok, reps in sorted(tokens.REPS.items()):
        for r in reps:
            vals.append((tok, r))
            vals.append(("[" + tok + "]", [r, r]))
    # objects naming their runtime type in the three ways, incl. types that are possible for another abstract type only
    for tn in ["A", "B", "C", "T", "Nope", "P", "E"]:
        vals.append(("{_typename:%s}" % tn, {"_typename": tn, "_id": "x", "d": "dv"}))
    vals += [("[[],None]", [[], None]), ("[None,[obj]]", [None, [{"_typename": "T", "_id": "x", "d": "dv"}]]), ("[5,[obj]]", [5, [{"_typename": "T", "_id": "x", "d": "dv"}]]),
             ("[[None],[obj]]", [[None], [{"_typename": "T", "_id": "x", "d": "dv"}]])]
    vals += [("X", "X"), ("[X,Y]", ["X", "Y"]), ("[X,Z]", ["X", "Z"]), ("Y", "Y"), ("{}", {}), ("[[...]]", [[{}], [None]]), ("[None]", [None, None])]
    # impostors: not strings / numbers themselves, but printing like a legal value
    for text in ("X", "Y", "5", "true", "1.5", ""):
        vals.append(("str()=%s" % text, StrIs(text)))
        vals.append(("[str()=%s]" % text, [StrIs(text), StrIs(text)]))
    records, meta, tid = [], {}, 0
    for name, nodes, target in docs:
        doc = render.DocText(nodes)
        for tok, val in vals:
            tid += 1
            cs = CaseState({})
            cs.adversary = Fixed(w, target, val)
            cs.ctx = {"__cs": cs}
            COUNT["n"] = 0
            try:
                resp = main_loop().run(eng.execute(doc.text, context=cs.ctx))
            except BaseException as e:
                resp = {"__raised__": repr(e)}
            records.append({"tid": tid, "nodes": nodes, "op": 1, "vars": [], "cls": "exec", "geom": project.geometry(doc.text),
                            "resp": project.response(resp), "ncalls": len(cs.calls), "coercerCalls": COUNT["n"]})
            meta[tid] = {"query": doc.text, "field": name, "token": tok, "value": repr(val)[:200], "response": repr(resp)[:1500]}
    # history: a runtime type completed validly under one abstract type must still be refused under another
    seqs = [("u", "C"), ("p", "C"), ("lp", "C"), ("p", "A"), ("u", "B"), ("lu", "B"), ("p", "B"), ("u", "B")]
    for fname, tn in seqs:
        nodes = [N("OP", 0, "", "query"), N("F", 1, fname), N("F", 2, "__typename")]
        doc = render.DocText(nodes)
        tid += 1
        cs = CaseState({})
        val = {"_typename": tn, "_id": "x", "d": "dv"}
        cs.adversary = Fixed(w, [fname], [val, val] if fname.startswith("l") else val)
        cs.ctx = {"__cs": cs}
        COUNT["n"] = 0
        try:
            resp = main_loop().run(eng.execute(doc.text, context=cs.ctx))
        except BaseException as e:
            resp = {"__raised__": repr(e)}
        records.append({"tid": tid, "nodes": nodes, "op": 1, "vars": [], "cls": "exec", "geom": project.geometry(doc.text),
                        "resp": project.response(resp), "ncalls": len(cs.calls), "coercerCalls": COUNT["n"]})
        meta[tid] = {"query": doc.text, "field": fname + "(history)", "token": tn, "value": repr(val), "response": repr(resp)[:800]}
    verdicts, tres = tracecheck.judge("Trace_resp.tla", "Trace_resp.cfg", records)
    viol, distinct = [], set()
    for r in records:
        ok, clause = verdicts[r["tid"]]
        m = meta[r["tid"]]
        distinct.add(hash((m["field"], m["token"])))
        if not ok and len(viol) < 400:
            genrun.add_viol(viol, ({"kind": "trace-rejected", "clause": clause, "field": m["field"], "token": m["token"]}, {"record": r, "meta": m}))
    samples = [meta[t] for t in list(meta)[40:42]]
    return {"job": j, "tlc": [genrun.tlc_summary("Trace_resp.cfg(cells)", tres)], "evaluations": len(records), "traces": len(records),
            "distinct": list(distinct), "samples": samples, "violations": viol, "extra": {"type_token_cells": len(records)}}


def job(j):
    if j.get("kind") == "cells":
        return cells_job(j)
    seed = j["seed"]
    st = {"world": None, "cases": []}

    def on_line(rec):
        if rec["kind"] == "schema":
            if st["world"] is None:
                st["world"] = World(rec["types"], rec["roots"])
            return
        if len(st["cases"]) < j["max_cases"]:
            st["cases"].append(rec)
        elif len(st["cases"]) >= j["max_cases"]:
            raise StopIteration

    # odd jobs: small alphabet with two fragments and @skip / @include (literal and variable) on fields, inline fragments and spreads
    simcfg = "MC_exec_simd.cfg" if seed % 2 else "MC_exec_sim3.cfg"
    if j.get("cfg"):
        # an exhaustively enumerated small configuration: merged sub-selections that differ per runtime type of the list items
        simcfg = j["cfg"]
        res = tlc.run("MC_exec.tla", simcfg, on_line=on_line, workers=1, timeout=1500)
    else:
        res = tlc.run("MC_exec.tla", simcfg, on_line=on_line, workers=1, simulate=j["behaviours"], depth=40, seed=seed, timeout=1500)
    w = st["world"]
    eng_cfgs = [{"coercer": counting_coercer}, {"coercer": counting_coercer, "list_conc": False, "field_parent_conc": False}]
    records, meta = [], {}
    tid = 0
    for ci, case in enumerate(st["cases"]):
        doc = render.DocText(case["nodes"])
        for rep in range(j["per_case"]):
            tid += 1
            adv = Adversary(w, seed * 1000003 + ci * 131 + rep, p_good=[0.75, 0.5, 0.9][rep % 3])
            cs = CaseState({})
            cs.adversary = adv
            cs.ctx = {"__cs": cs}
            eng = w.engine(eng_cfgs[rep % 2])
            COUNT["n"] = 0
            try:
                resp = main_loop().run(eng.execute(doc.text, operation_name=execreplay.op_name(case), context=cs.ctx,
                                                   variables=execreplay.variables_py(case["given"])))
            except BaseException as e:
                resp = {"__raised__": repr(e)}
            rec = {"tid": tid, "nodes": case["nodes"], "op": case["op"], "vars": case["cvars"], "cls": "exec",
                   "geom": project.geometry(doc.text), "resp": project.response(resp), "ncalls": len(cs.calls), "coercerCalls": COUNT["n"]}
            records.append(rec)
            meta[tid] = {"query": doc.text, "variables": execreplay.variables_py(case["given"]), "response": repr(resp)[:3000],
                         "adversary_seed": seed * 1000003 + ci * 131 + rep}
    verdicts, tres = tracecheck.judge("Trace_resp.tla", "Trace_resp.cfg", records)
    viol, distinct, samples = [], set(), []
    for r in records:
        ok, clause = verdicts[r["tid"]]
        if r["resp"]["hasErrors"]:
            distinct.add(hash(json.dumps(r["resp"]["data"], sort_keys=True) + meta[r["tid"]]["query"]))
        if not ok and len(viol) < 400:
            genrun.add_viol(viol, ({"kind": "trace-rejected", "clause": clause}, {"record": r, "meta": meta[r["tid"]]}))
    for r in records[:400]:
        if r["resp"]["hasErrors"] and len(samples) < 1 and len(r["nodes"]) >= 5:
            samples.append({"query": meta[r["tid"]]["query"], "response": meta[r["tid"]]["response"], "verdict": verdicts[r["tid"]]})
    return {"job": j, "tlc": [genrun.tlc_summary("%s(simulate seed=%d)" % (simcfg, seed), res, exhaustive=False),
                              genrun.tlc_summary("Trace_resp.cfg", tres)],
            "evaluations": len(records), "traces": len(records), "distinct": list(distinct), "samples": samples, "violations": viol}


def main(argv):
    rep = common.Report("C03")
    thorough = common.tier() == "thorough"
    rep.rule = ("cases = (document drawn by TLC -simulate from the full S_exec alphabet, seeded adversarial resolver outputs); each recorded response is "
                "one trace judged by TLC (Conforms + envelope + error-coercer count); distinct_nontrivial = distinct (query, data) pairs whose response carries errors")
    rep.assumptions = ["stand-in parser", "adversarial universe = harness/adversary.py (token representatives, nested lists/dicts/tuples/sets/generators, objects with attributes, "
                       "exception instances, raising resolvers) mixed with well-typed values", "strings are projected to identifier-or-<str>, numbers beyond 32 bits and floats to class tokens"]
    base_seed = common.seed()
    njobs = 16 if thorough else 8
    jobs = [{"seed": base_seed * 100 + k + 1, "behaviours": 1500 if thorough else 400, "max_cases": 800 if thorough else 150,
             "per_case": 12 if thorough else 6} for k in range(njobs)]
    jobs.append({"kind": "cells"})
    jobs.append({"seed": base_seed * 100 + 77, "cfg": "MC_exec_merget.cfg", "behaviours": 0, "max_cases": 6000 if thorough else 2500, "per_case": 6 if thorough else 3})
    results = genrun.run_jobs("checks.c03", "job", jobs)
    bad = genrun.merge(rep, results)
    rep.exhaustive = False
    rc = rep.finish()
    if bad:
        for b in bad:
            print("MACHINERY-ERROR %s: %s" % (b["job"], b["machinery_error"][-2000:]))
        return 2
    return rc
