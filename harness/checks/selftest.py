"""./check selftest — health of the trusted base and non-vacuity of the binding.
Never reports a property violation: exit 0 = healthy, exit 2 = machinery problem."""
import copy
import json
import os
import re
import subprocess
import sys

import base
import common
import tlc
import tracecheck


def stub_vs_upstream():
    """the stand-in parser under upstream's own functional + unit tests"""
    env = dict(os.environ, PYTHONDONTWRITEBYTECODE="1", PYTHONPATH=os.path.join(common.VERIF, "harness"))
    p = subprocess.run([sys.executable, "-m", "pytest", "-p", "gqlstub", "tests/functional", "tests/unit", "-q", "-n", "8", "-p", "no:cacheprovider"],
                       cwd=base.REPO, env=env, stdout=subprocess.PIPE, stderr=subprocess.STDOUT, text=True)
    tail = p.stdout.strip().splitlines()[-1]
    m = re.search(r"(\d+) passed", tail)
    passed = int(m.group(1)) if m else 0
    print("stand-in parser under upstream tests: %s" % tail)
    return passed >= 7600


def tamper_traces():
    """a recorded trace must be accepted, the same trace with one field corrupted must be rejected"""
    ok = True
    import schedtrace
    r = schedtrace.job({"seed": 4242, "behaviours": 400, "max_cases": 120, "schedules_per_case": 1, "keep_records": True})
    recs = r.get("records") or []
    good = [x for x in recs if len(x["events"]) >= 2]
    if not good:
        print("selftest: no multi-event trace recorded")
        return False
    rec = good[0]
    variants = []
    a = copy.deepcopy(rec); a["tid"] = 1
    b = copy.deepcopy(rec); b["tid"] = 2; b["events"][0], b["events"][1] = b["events"][1], b["events"][0]     # release order swapped
    c = copy.deepcopy(rec); c["tid"] = 3; c["events"].append(copy.deepcopy(c["events"][0]))                  # a resolver released twice
    d = copy.deepcopy(rec); d["tid"] = 4; d["data"] = {"t": "O", "v": [["zz", {"t": "N"}]]}                # response changed
    e = copy.deepcopy(rec); e["tid"] = 5; e["leftover"] = True                                              # something left running
    verdicts, _ = tracecheck.judge("Trace_sched.tla", "Trace_sched.cfg", [a, b, c, d, e])
    print("Trace_sched verdicts (original, swapped, double release, changed data, leftover):", [verdicts[k] for k in range(1, 6)])
    ok &= verdicts[1][0] and not verdicts[3][0] and not verdicts[4][0] and not verdicts[5][0]
    # several requests in flight (Trace_multi): the original is accepted; a resolver of request 1 appearing in request 2's pending set
    # while request 1 is released ("disturbed"), a release of a resolver the request never calls, and a changed answer are rejected
    import multitrace
    r = multitrace.job({"seed": 4243, "behaviours": 2000, "max_cases": 40, "groups": 30, "keep_records": True, "simcfg": "MC_faults_simf.cfg"})
    good = [x for x in (r.get("records") or []) if sum(1 for e in x["events"] if e["kind"] == "release") >= 3 and len(x["reqs"]) >= 2]
    if not good:
        print("selftest: no multi-request trace recorded")
        return False
    rec = good[0]
    a = copy.deepcopy(rec); a["tid"] = 1
    b = copy.deepcopy(rec); b["tid"] = 2
    k = max(m for m, e in enumerate(b["events"]) if e["kind"] == "release")
    other = 0 if b["events"][k]["rid"] != 1 else 1
    b["events"][k]["pending"][other] = b["events"][k]["pending"][other] + [["zz"]]
    c = copy.deepcopy(rec); c["tid"] = 3
    k = min(m for m, e in enumerate(c["events"]) if e["kind"] == "release")
    c["events"][k]["p"] = ["never", "called"]
    d = copy.deepcopy(rec); d["tid"] = 4; d["reqs"][-1]["data"] = {"t": "O", "v": [["zz", {"t": "N"}]]}
    verdicts, _ = tracecheck.judge("Trace_multi.tla", "Trace_multi.cfg", [a, b, c, d])
    print("Trace_multi verdicts (original, other request disturbed, foreign release, changed data):", [verdicts[k] for k in range(1, 5)])
    ok &= verdicts[1][0] and verdicts[2] == (False, "another-request-disturbed") and not verdicts[3][0] and verdicts[4] == (False, "data")
    # the swapped order is either still a legal schedule (accepted) or rejected; it must not be accepted as model-conformant if the model forbids it
    return ok


def action_coverage():
    """-coverage 1 on small configurations: every action of the specification is taken at least once"""
    ok = True
    # (TLC's coverage mode runs out of memory on the recursive execution modules; the small state machines are checked)
    for module, cfg in (("MC_registry.tla", "MC_registry_2.cfg"), ("MC_cache.tla", "MC_env.cfg")):
        try:
            res = tlc.run(module, cfg, workers=1, coverage=True, heap="6g", timeout=600)
        except tlc.TLCError as e:
            print("coverage %s: skipped (%s)" % (cfg, str(e)[:80]))
            continue
        never = [a for a, (d, t) in res.coverage.items() if t == 0]
        print("coverage %s: %d actions, never taken: %s" % (cfg, len(res.coverage), never or "none"))
        ok &= bool(res.coverage) and not never
    return ok


def main(argv):
    ok = True
    if "--fast" not in argv:
        ok &= action_coverage()
    try:
        ok &= tamper_traces()
    except tlc.TLCError as e:
        print("selftest machinery error: %s" % e)
        ok = False
    if "--fast" not in argv:
        ok &= stub_vs_upstream()
    print("selftest: %s" % ("ok" if ok else "PROBLEM"))
    return 0 if ok else 2
