"""C16 — the query cache and request history never change a response.
R1: Coherent / Transparent (TLC, Engine.tla via MC_cache).  R2: every request sequence
TLC prints is sent to one engine with the matching cache configuration."""
import functools
import json
import common, genrun, tlc, render
from base import main_loop
from execworld import World, CaseState, table_of, variables_py
import execreplay


class DictCache:
    """harness-owned query_cache_decorator with capacity k (LRU)"""
    def __init__(self, k):
        self.k = k
        self.store = {}
        self.hits = 0
        self.misses = 0

    def __call__(self, fn):
        def wrapped(query, schema):
            key = (type(query), query)
            if key in self.store:
                self.hits += 1
                v = self.store.pop(key)
                self.store[key] = v
                return v
            self.misses += 1
            v = fn(query, schema)
            self.store[key] = v
            while len(self.store) > self.k:
                self.store.pop(next(iter(self.store)))
            return v
        wrapped.cache_clear = self.store.clear
        return wrapped


def cache_options(capacity):
    if capacity == 0:
        return [("off", None)]
    if capacity >= 99:
        return [("default", "DEFAULT")]
    return [("lru%d" % capacity, functools.lru_cache(maxsize=capacity)), ("custom%d" % capacity, DictCache(capacity))]


def send(world, eng, docs, entry, texts):
    doc = texts[entry["doc"]]
    q = doc.text if entry["spelling"] == "str" else doc.text.encode("utf-8")
    cs = CaseState(table_of(entry["calls"]))
    ctx = {"__cs": cs}
    cs.ctx = ctx
    try:
        resp = main_loop().run(eng.execute(q, operation_name=entry["opName"] or None, context=ctx,
                                           variables=variables_py(entry["given"])))
    except BaseException as e:
        resp = {"__raised__": repr(e)}
    return resp, cs, doc


def check_entry(entry, resp, cs, doc):
    if entry["cls"] == "exec":
        case = dict(entry)
        case["overlay"] = []
        return execreplay.compare_faults(case, resp, cs, doc)
    out = []
    if not isinstance(resp, dict) or "__raised__" in resp:
        return ["execute raised / non-dict: %r" % (resp,)]
    if resp.get("data") is not None:
        out.append("%s error class but data is %r" % (entry["cls"], resp.get("data")))
    if not isinstance(resp.get("errors"), list) or not resp["errors"]:
        out.append("%s error class but errors is %r" % (entry["cls"], resp.get("errors")))
    if cs.calls:
        out.append("%s error class but resolvers ran: %s" % (entry["cls"], [list(c[0]) for c in cs.calls]))
    if entry["cls"] in ("syntax", "opselect") and isinstance(resp.get("errors"), list):
        # nothing past parsing / operation selection happens: no variable is coerced (no custom scalar code runs, no variable error is reported)
        if len(resp["errors"]) != 1:
            out.append("%s error class answered %d errors: %r" % (entry["cls"], len(resp["errors"]), [e.get("message") for e in resp["errors"] if isinstance(e, dict)]))
    return out


def refusals_job(j):
    """sequences of refused introspection requests of different layouts on a schema that refuses introspection: each answer names
    ITS field (response key, position in ITS text), whatever was refused before - on the same engine and on another engine of the process"""
    import itertools
    import introworld
    from base import main_loop
    viol, n = [], 0
    engines = [introworld.cook(), introworld.cook()]
    for seq in itertools.permutations(range(len(introworld.REFUSED)), 3):
        for step, k in enumerate(seq):
            text, key, token = introworld.REFUSED[k]
            for spelling in (text, text.encode()):
                n += 1
                eng = engines[(step + (0 if isinstance(spelling, str) else 1)) % 2]
                try:
                    resp = main_loop().run(eng.execute(spelling))
                except BaseException as e:
                    resp = {"__raised__": repr(e)}
                for m in introworld.check_refusal(text, key, token, resp):
                    genrun.add_viol(viol, ({"kind": "cache-mismatch", "cls": "refused-introspection", "first": m[:120]},
                                           {"sequence": [introworld.REFUSED[x][0] for x in seq[:step + 1]], "response": repr(resp)[:1500]}))
    return {"job": j, "tlc": [], "evaluations": n, "distinct": [], "samples": [], "violations": viol, "extra": {"refused_introspection_requests_in_sequences": n}}


def job(j):
    if j.get("kind") == "refusals":
        return refusals_job(j)
    cfg = j["cfg"]
    st = {"world": None, "docs": None, "texts": None, "n": 0, "viol": [], "distinct": set(), "samples": [],
          "engines": None, "hits": 0, "evictions": 0, "baseline": {}, "fresh": None, "hit_agree": 0, "hit_total": 0}

    def baseline(entry):
        key = (entry["doc"], entry["spelling"], entry["opName"], json.dumps(entry["given"], sort_keys=True))
        if key not in st["baseline"]:
            if st["fresh"] is None:
                st["fresh"] = st["world"].engine({"cache": None, "tag": "fresh"})
            resp, _cs, _doc = send(st["world"], st["fresh"], st["docs"], entry, st["texts"])
            st["baseline"][key] = resp
        return st["baseline"][key]

    def on_line(rec):
        if rec["kind"] == "schema":
            if st["world"] is None:
                st["world"] = World(rec["types"], rec["roots"])
            return
        if rec["kind"] == "docs":
            st["docs"] = rec["docs"]
            st["texts"] = {d: render.DocText(v["nodes"]) for d, v in rec["docs"].items()}
            return
        if st["engines"] is None:
            st["engines"] = []
            for name, deco in cache_options(rec["capacity"]):
                ecfg = {"tag": name}
                if deco != "DEFAULT":
                    ecfg["cache"] = deco
                st["engines"].append((name, deco, st["world"].engine(ecfg)))
        st["n"] += 1
        keys = [(e["doc"], e["spelling"]) for e in rec["log"]]
        if len(set(keys)) < len(keys):
            st["distinct"].add(hash(json.dumps([(e["doc"], e["spelling"], e["opName"], e["given"]) for e in rec["log"]])))
        for name, deco, eng in st["engines"]:
            cached = getattr(eng, "_cached_parse_and_validate_query", None)
            if hasattr(cached, "cache_clear"):
                cached.cache_clear()
            for pos, entry in enumerate(rec["log"]):
                before = cached.cache_info().hits if hasattr(cached, "cache_info") else (deco.hits if isinstance(deco, DictCache) else None)
                resp, cs, doc = send(st["world"], eng, st["docs"], entry, st["texts"])
                after = cached.cache_info().hits if hasattr(cached, "cache_info") else (deco.hits if isinstance(deco, DictCache) else None)
                if before is not None:
                    st["hit_total"] += 1
                    st["hit_agree"] += 1 if (after - before == 1) == bool(entry["hit"]) else 0
                    st["hits"] += after - before
                mm = check_entry(entry, resp, cs, doc)
                base = baseline(entry)
                if json.dumps(resp, sort_keys=True, default=repr) != json.dumps(base, sort_keys=True, default=repr):
                    mm.append("response differs from a fresh uncached engine's: %r vs %r" % (resp, base))
                if mm and len(st["viol"]) < 400:
                    genrun.add_viol(st["viol"], ({"kind": "cache-mismatch", "config": cfg, "cache": name, "cls": entry["cls"], "first": mm[0][:140]},
                                       {"sequence": rec["log"], "position": pos, "mismatches": mm, "response": resp}))
        if len(st["samples"]) < 1 and len(set(keys)) < len(keys) and any(e["evicted"] for e in rec["log"]):
            st["samples"].append({"capacity": rec["capacity"], "sequence": [
                {"query": st["texts"][e["doc"]].text, "as": e["spelling"], "operation_name": e["opName"], "variables": variables_py(e["given"]),
                 "spec_hit": e["hit"], "spec_evicted": e["evicted"], "class": e["cls"]} for e in rec["log"]]})

    res = tlc.run("MC_cache.tla", cfg, on_line=on_line, workers=1, timeout=3000)
    return {"job": j, "tlc": [genrun.tlc_summary(cfg, res)], "evaluations": st["n"], "distinct": list(st["distinct"]),
            "samples": st["samples"], "violations": st["viol"],
            "extra": {"cache_hits_observed": st["hits"], "hit_predictions_compared": st["hit_total"], "hit_predictions_agreeing": st["hit_agree"]}}


def main(argv):
    rep = common.Report("C16")
    rep.rule = ("cases = every request sequence of length 4 over the request pool (valid / invalid / syntactically broken documents, same text with "
                "different operation names and variables, str and bytes) x cache configuration (off, LRU 1, LRU 2, default 512, custom decorator); "
                "distinct_nontrivial = distinct sequences that repeat a (document, spelling) key")
    rep.assumptions = ["stand-in parser", "the engine's cache is cleared between sequences through the decorator's cache_clear()",
                       "each response is compared both with the specification's Solo(request) and with the response of a fresh engine without cache"]
    names = ["off", "k1", "k2", "inf"]
    cfgs = ["MC_cache_%s.cfg" % n for n in names] + ["MC_hist_%s.cfg" % n for n in ("off", "k1", "inf")]
    if common.tier() == "thorough":
        cfgs += ["MC_cache_%s_big.cfg" % n for n in names]
    results = genrun.run_jobs("checks.c16", "job", [{"cfg": c} for c in cfgs] + [{"kind": "refusals"}])
    bad = genrun.merge(rep, results)
    rc = rep.finish()
    if bad:
        for b in bad:
            print("MACHINERY-ERROR %s: %s" % (b["job"], b["machinery_error"][-2000:]))
        return 2
    return rc
