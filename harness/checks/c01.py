"""C01 — request results equal the GraphQL execution algorithm's result.
R1: invariants of MC_exec (TLC).  R2: every case TLC prints is replayed in the engine."""
import os, sys
import base, common, genrun, tlc, render
from execworld import World
import execreplay

QUICK = ["MC_exec_basic.cfg", "MC_exec_abstract.cfg", "MC_exec_lists.cfg", "MC_exec_falsy.cfg", "MC_exec_long.cfg", "MC_exec_objlit.cfg", "MC_exec_ops2.cfg", "MC_exec_cs.cfg", "MC_exec_widen.cfg", "MC_exec_typeres.cfg", "MC_exec_args.cfg",
         "MC_exec_frag.cfg", "MC_exec_fragq.cfg", "MC_exec_merge.cfg", "MC_exec_merge2.cfg", "MC_exec_mutargs.cfg", "MC_exec_fragvar.cfg", "MC_exec_dirs.cfg", "MC_exec_dirs2.cfg", "MC_exec_s2.cfg", "MC_exec_s2g.cfg", "MC_exec_s2m.cfg", "MC_exec_ops.cfg", "MC_exec_mut.cfg"]
THOROUGH = QUICK + ["MC_exec_basic5.cfg", "MC_exec_abstract5.cfg", "MC_exec_frag5.cfg", "MC_exec_dirs5.cfg", "MC_exec_lists5.cfg"]

ENGINE_CFGS = [{}, {"list_conc": False, "parent_conc": False, "field_parent_conc": False, "args": "sync"}, {"cdr": True, "list_conc": False},
               {"seq_fields": ("i", "lo", "lp", "o", "p", "s")}]      # some fields awaited inline, their siblings gathered


def job(j):
    cfg = j["cfg"]
    state = {"world": None, "n": 0, "viol": [], "distinct": set(), "samples": []}

    def on_line(rec):
        if rec["kind"] == "schema":
            if state["world"] is None:
                state["world"] = World(rec["types"], rec["roots"])
            return
        w = state["world"]
        state["n"] += 1
        ecfg = dict(ENGINE_CFGS[(state["n"] // 3) % len(ENGINE_CFGS)])
        if rec.get("trs"):
            ecfg["trs"] = tuple(sorted(rec["trs"]))
        resp, cs, doc = execreplay.run_plain(w, rec, ecfg, layout=state["n"] % 2, rename_frags=(True if state["n"] % 3 == 1 else ("op" if state["n"] % 3 == 2 else False)), reverse_defs=(state["n"] % 5 == 2), rename_vars=("shared" if state["n"] % 4 == 0 else (state["n"] % 2 == 0)),
                                             initial=({"_id": "ROOT%d" % state["n"], "d": "rootd"} if state["n"] % 4 == 3 else None))
        mm = execreplay.compare_plain(rec, resp, cs)
        sc = execreplay.shape_class(rec["nodes"])
        nsel = sum(1 for n in rec["nodes"] if n["k"] in "FIS")
        if nsel >= 2:
            state["distinct"].add(hash((sc, bool(rec["overlay"]), bool(rec["given"]))))
        if len(state["samples"]) < 2 and nsel >= 3:
            state["samples"].append({"query": doc.text, "variables": execreplay.variables_py(rec["given"]),
                                     "overlay": rec["overlay"], "expected_data": render.value_py(rec["data"])})
        if mm and len(state["viol"]) < 400:
            tags = sorted({(e.get("extensions") or {}).get("tag") for e in (resp.get("errors") or []) if isinstance(e, dict) and (e.get("extensions") or {}).get("tag")}) if isinstance(resp, dict) else []
            if j.get("want") == "C06" and not tags:
                return            # C06 only judges refusals by a validation rule; other mismatches are C01's
            genrun.add_viol(state["viol"], ({"kind": "exec-mismatch", "config": cfg, "rule_tags": tags, "first": mm[0][:160]},
                                  {"case": rec, "query": doc.text, "engine_cfg": ecfg, "mismatches": mm, "response": resp}))

    if j.get("simulate"):
        # large documents (up to 12 selection nodes, full alphabet) drawn by TLC in simulation mode
        inner = on_line

        def on_line_capped(rec):
            if state["n"] >= j["max_cases"]:
                raise StopIteration
            inner(rec)
        res = tlc.run("MC_exec.tla", cfg, on_line=on_line_capped, workers=1, simulate=j["simulate"], depth=40, seed=j["seed"], timeout=1500)
        return {"job": j, "tlc": [genrun.tlc_summary("%s(simulate seed=%d)" % (cfg, j["seed"]), res, exhaustive=False)], "evaluations": state["n"],
                "distinct": list(state["distinct"]), "samples": state["samples"], "violations": state["viol"], "extra": {"large_documents_replayed": state["n"]}}
    res = tlc.run("MC_exec.tla", cfg, on_line=on_line, workers=j.get("workers", 1), timeout=j.get("timeout", 3000))
    return {"job": j, "tlc": [genrun.tlc_summary(cfg, res)], "evaluations": state["n"],
            "distinct": list(state["distinct"]), "samples": state["samples"], "violations": state["viol"]}


def main(argv):
    rep = common.Report("C01")
    rep.rule = ("cases = terminal states of MC_exec generator configs (document x operation x variables x benign data "
                "overlay), each replayed in the engine; distinct_nontrivial = distinct (document shape class, overlay?, "
                "variables?) with >= 2 selection nodes")
    rep.assumptions = ["stand-in parser (harness/gqlstub.py) replaces libgraphqlparser", "TLC 1.8 explicit-state exploration is exhaustive within each config's constants",
                       "documents restricted to the mergeable-fields fragment described in GenDoc.tla"]
    cfgs = THOROUGH if common.tier() == "thorough" else QUICK
    cfgs = [c for c in cfgs if os.path.exists(os.path.join(tlc.SPEC_DIR, c))]
    thorough = common.tier() == "thorough"
    sims = [{"cfg": c, "simulate": 2000 if thorough else 500, "seed": common.seed() * 100 + 7 + k, "max_cases": 2000 if thorough else 300}
            for k, c in enumerate(["MC_exec_sim3.cfg", "MC_exec_sim.cfg"] * (3 if thorough else 1))]
    results = genrun.run_jobs("checks.c01", "job", [{"cfg": c} for c in cfgs] + sims)
    bad = genrun.merge(rep, results)
    rc = rep.finish()
    if bad:
        for b in bad:
            print("MACHINERY-ERROR %s: %s" % (b["job"], b["machinery_error"][-2000:]))
        return 2
    return rc
