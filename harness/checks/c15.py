"""C15 — concurrent requests on one engine do not influence each other.
R1: R1_Multi (TLC, MC_multi).  R2: every interleaving TLC prints is driven through one
real engine with all requests in flight.  R3: groups of requests over different documents,
started at different moments under random interleavings, are recorded from the engine and
validated by TLC against a product of independent scheduler specifications (Trace_multi)."""
import common, genrun, tlc, render
from execworld import World
import execreplay

QUICK = ["MC_multi_vars.cfg", "MC_multi_nested.cfg", "MC_multi_ops.cfg", "MC_multi_faults.cfg", "MC_multi_three.cfg", "MC_multi_dirs.cfg", "MC_multi_frag.cfg"]


def introspect_job(j):
    """Requests of different users in flight together: an on_introspection directive hides / fails / suspends depending on the
    request's context; each answer must be the one the request gets alone on a fresh engine, also for requests sent afterwards.
    Also: a request refused at variable coercion is answered the same before and after other traffic."""
    import asyncio
    import json as _json
    import base
    from base import main_loop, unique_schema_name
    from checks.c08 import INTRO_SDL, INTRO_Q
    t = base.tartiflette()

    def cook():
        sn = unique_schema_name("intro15")

        @t.Directive("vis", schema_name=sn)
        class Vis:
            async def on_introspection(self, directive_args, next_directive, introspected_element, ctx, info):
                n = directive_args.get("n")
                ctx = ctx or {}
                for _ in range(ctx.get("yield", {}).get(n, 0)):
                    await asyncio.sleep(0)
                if n in ctx.get("hide", ()):
                    return None
                if n in ctx.get("boom", ()):
                    raise KeyError("vis")
                return await next_directive(introspected_element, ctx, info)

        @t.Resolver("Query.e", schema_name=sn)
        async def re_(parent, args, ctx, info):
            return args.get("v")
        return main_loop().run(t.create_engine(INTRO_SDL, schema_name=sn))
    ENUMQ = "query ($v: E) { e(v: $v) }"
    contexts = [{}, {"hide": (1, 2, 5), "yield": {1: 1, 5: 2}}, {"hide": (3,)}, {"yield": {1: 2, 4: 1, 5: 3, 3: 1}}, {"boom": (2,), "yield": {2: 1}}, {"hide": (4, 6)}]
    viol, n = [], 0

    def canon(resp):
        try:
            return _json.dumps(resp, sort_keys=True, allow_nan=False, default=repr)
        except (TypeError, ValueError):
            return "NOT-JSON %r" % (resp,)
    alone = {}
    for k, ctx in enumerate(contexts):
        alone[k] = canon(main_loop().run(cook().execute(INTRO_Q, context=dict(ctx))))
    fresh_bad = canon(main_loop().run(cook().execute(ENUMQ, variables={"v": "XX"})))
    for a in range(len(contexts)):
        for b in range(len(contexts)):
            if a == b:
                continue
            eng = cook()

            async def both():
                return await asyncio.gather(eng.execute(INTRO_Q, context=dict(contexts[a])), eng.execute(INTRO_Q, context=dict(contexts[b])))
            n += 4
            bad0 = canon(main_loop().run(eng.execute(ENUMQ, variables={"v": "XX"})))
            ra, rb = main_loop().run(both())
            later = main_loop().run(eng.execute(INTRO_Q, context=dict(contexts[b])))
            bad1 = canon(main_loop().run(eng.execute(ENUMQ, variables={"v": "XX"})))
            for what, got, want in (("first of two requests in flight", canon(ra), alone[a]), ("second of two requests in flight", canon(rb), alone[b]),
                                    ("the second request again, afterwards", canon(later), alone[b]),
                                    ("a request refused at variable coercion, first time", bad0, fresh_bad), ("the same refused request after other traffic", bad1, fresh_bad)):
                if got != want:
                    genrun.add_viol(viol, ({"kind": "introspection-interference", "what": what, "contexts": _json.dumps([contexts[a], contexts[b]], sort_keys=True, default=list)[:160]},
                                           {"got": got[:3000], "alone_on_a_fresh_engine": want[:3000]}))
    # a schema that refuses introspection: the refusal holds whatever other requests are in flight / have finished meanwhile
    import introworld
    for k in range(len(introworld.REFUSED)):
        text, key, token = introworld.REFUSED[k]
        eng = introworld.cook()
        slowq = "{ slow " + text.lstrip()[1:] if text.lstrip().startswith("{") else None

        async def overlapped():
            # the other request starts first and finishes while this one is still before its introspection field
            return await asyncio.gather(eng.execute("{ quick }"), eng.execute(slowq or text))
        n += 2
        other, mine = main_loop().run(overlapped())
        for m in introworld.check_refusal(slowq or text, key, token, mine):
            genrun.add_viol(viol, ({"kind": "introspection-interference", "what": "refusal with another request in flight", "contexts": text[:60]}, {"response": repr(mine)[:1500], "complaint": m}))
        if other != {"data": {"quick": 2}}:
            genrun.add_viol(viol, ({"kind": "introspection-interference", "what": "plain request beside a refused one", "contexts": text[:60]}, {"response": repr(other)[:800]}))
    # an error coercer completing the error in place: every response carries its own mark, once
    async def counting(exception, error):
        error.setdefault("extensions", {})
        if isinstance(error["extensions"], dict):
            error["extensions"]["seen"] = error["extensions"].get("seen", 0) + 1
        return error
    eng = introworld.cook(error_coercer=counting)
    for q in ("{ nope }", "{ quick(zz: 1) }", '{ __type(name: "Query") { name } }'):
        async def twice():
            return await asyncio.gather(eng.execute(q), eng.execute(q))
        n += 3
        rs = list(main_loop().run(twice())) + [main_loop().run(eng.execute(q))]
        for r in rs:
            seen = [(e.get("extensions") or {}).get("seen") for e in (r.get("errors") or [])]
            if not seen or any(x != 1 for x in seen):
                genrun.add_viol(viol, ({"kind": "introspection-interference", "what": "in-place error coercer: marks of other requests in the error", "contexts": q}, {"responses": repr(rs)[:2000]}))
    return {"job": j, "tlc": [], "evaluations": n, "distinct": [], "samples": [], "violations": viol, "extra": {"introspection_requests_in_flight_together": n}}


def job(j):
    if j.get("kind") == "introspect":
        return introspect_job(j)
    if j.get("r3"):
        import multitrace
        return multitrace.job(j)
    cfg = j["cfg"]
    st = {"world": None, "n": 0, "viol": [], "distinct": set(), "samples": [], "dev": 0}

    def on_line(rec):
        if rec["kind"] == "schema":
            if st["world"] is None:
                st["world"] = World(rec["types"], rec["roots"])
            return
        st["n"] += 1
        mm, dev = execreplay.run_multi(st["world"], rec)
        st["dev"] += 1 if dev else 0
        rids = [h["rid"] for h in rec["hist"]]
        switches = sum(1 for a, b in zip(rids, rids[1:]) if a != b)
        if switches >= 2:
            st["distinct"].add(hash(render.DocText(rec["nodes"]).text + repr([(r["op"], r["given"], r["overlay"]) for r in rec["reqs"]]) + repr(rec["hist"])))
        if len(st["samples"]) < 1 and switches >= 2:
            st["samples"].append({"document": render.DocText(rec["nodes"]).text,
                                  "requests": [{"op": r["op"], "variables": execreplay.variables_py(r["given"]), "overlay": r["overlay"],
                                                "expected_data": render.value_py(r["data"])} for r in rec["reqs"]],
                                  "interleaving": [[h["rid"], h["p"]] for h in rec["hist"]]})
        if mm and len(st["viol"]) < 400:
            genrun.add_viol(st["viol"], ({"kind": "multi-mismatch", "config": cfg, "first": mm[0][:140]}, {"case": rec, "mismatches": mm}))

    res = tlc.run("MC_multi.tla", cfg, on_line=on_line, workers=1, timeout=3000)
    return {"job": j, "tlc": [genrun.tlc_summary(cfg, res)], "evaluations": st["n"], "distinct": list(st["distinct"]),
            "samples": st["samples"], "violations": st["viol"], "extra": {"interleavings_with_model_deviation": st["dev"]}}


def main(argv):
    rep = common.Report("C15")
    rep.rule = ("cases = (document, 2-3 requests over it differing in operation / variables / resolver data incl. failures, complete "
                "interleaving of all their resolver completions); distinct_nontrivial = distinct cases whose interleaving switches "
                "between requests at least twice")
    rep.assumptions = ["stand-in parser", "requests share one engine, one parsed (cached) document and one event loop",
                       "each request is also re-run alone afterwards on the same engine and compared with the same prediction",
                       "R3 traces: the harness logs, after every start / release, the suspended resolvers of every request in flight (controlled event loop, gated resolvers)"]
    thorough = common.tier() == "thorough"
    jobs = [{"cfg": c} for c in QUICK]
    # R3: random groups of 2-4 requests over different documents (simulation-drawn, with failures), random start moments and
    # interleavings, recorded from the engine and validated by TLC against a product of independent scheduler specifications
    for k in range(8 if thorough else 3):
        jobs.append({"r3": True, "seed": common.seed() * 1000 + 700 + k, "behaviours": 4000, "max_cases": 150 if thorough else 60,
                     "groups": 600 if thorough else 150,
                     "simcfg": ["MC_faults_simf.cfg", "MC_faults_sim.cfg", "MC_faults_simw.cfg"][k % 3]})
    jobs.append({"kind": "introspect"})
    results = genrun.run_jobs("checks.c15", "job", jobs)
    bad = genrun.merge(rep, results)
    rc = rep.finish()
    if bad:
        for b in bad:
            print("MACHINERY-ERROR %s: %s" % (b["job"], b["machinery_error"][-2000:]))
        return 2
    return rc
