"""Rendering of specification objects into the concrete syntax the engine reads:
schema model -> SDL, node table -> query text (+ span of every node), literals,
type references, abstract values -> Python values.  Pure text/structure conversion."""


def typeref(t):
    """<<"NN","L","NN","T">> -> [T!]!"""
    if t[0] == "NN":
        return typeref(t[1:]) + "!"
    if t[0] == "L":
        return "[" + typeref(t[1:]) + "]"
    return t[0]


def gql_string(s):
    out = ['"']
    for ch in s:
        if ch == '"':
            out.append('\\"')
        elif ch == "\\":
            out.append("\\\\")
        elif ch == "\n":
            out.append("\\n")
        elif ch == "\t":
            out.append("\\t")
        elif ord(ch) < 0x20:
            out.append("\\u%04x" % ord(ch))
        else:
            out.append(ch)
    out.append('"')
    return "".join(out)


def lit(l):
    t = l["t"]
    v = l.get("v")
    if t == "int":
        return str(v)
    if t == "float":
        return str(v)
    if t == "str":
        return gql_string(v)
    if t == "bool":
        return "true" if v else "false"
    if t == "enum":
        return v
    if t == "null":
        return "null"
    if t == "var":
        return "$" + v
    if t == "list":
        return "[" + ", ".join(lit(x) for x in v) + "]"
    if t == "obj":
        return "{" + ", ".join("%s: %s" % (k, lit(x)) for k, x in v) + "}"
    if t == "raw":
        return v
    raise ValueError("unknown literal %r" % (l,))


def args_sdl(args, hk=""):
    if not args:
        return ""
    parts = []
    for a in args:
        s = "%s: %s" % (a["name"], typeref(a["type"]))
        if a.get("hasDefault"):
            s += " = " + lit(a["default"])
        s += hk
        for d in a.get("dirs", []) or []:
            s += " " + dir_app(d)
        parts.append(s)
    return "(" + ", ".join(parts) + ")"


def dir_app(d):
    s = "@" + d["name"]
    if d.get("args"):
        s += "(" + ", ".join("%s: %s" % (a["name"], lit(a["val"])) for a in d["args"]) + ")"
    return s


BUILTIN_SCALARS = {"String", "Int", "Boolean", "ID", "Float", "Date", "Time", "DateTime"}


def sdl_exec(types, roots, hooks=False):
    """SDL of an execution schema given as the JSON image of the TLA+ `Types` record.
    hooks=True attaches a pass-through counting directive @hk to every field definition,
    argument definition, enum and enum value (C07: no hook may run for a refused document)."""
    out = []
    hk = " @hk" if hooks else ""
    if hooks:
        out.append("directive @hk on FIELD_DEFINITION | ARGUMENT_DEFINITION | ENUM | ENUM_VALUE | INPUT_FIELD_DEFINITION | FIELD")
    if any(a.get("dirs") for td in types.values() if td["kind"] in ("OBJECT", "INTERFACE") for fd in td["fields"].values() for a in fd["args"]):
        out.append("directive @boom on ARGUMENT_DEFINITION")
    if any(a.get("dirs") for td in types.values() if td["kind"] == "INPUT" for a in td["inputs"]):
        out.append("directive @boomi on INPUT_FIELD_DEFINITION")
    implements = {}
    for tn, td in types.items():
        if td["kind"] == "INTERFACE":
            for o in td["possibleSeq"]:
                implements.setdefault(o, []).append(tn)
    for tn, td in types.items():
        k = td["kind"]
        if k == "SCALAR":
            if tn not in BUILTIN_SCALARS:
                out.append("scalar %s" % tn)
            continue
        if k == "ENUM":
            out.append("enum %s%s { %s }" % (tn, hk, " ".join(v + hk for v in td["values"])))
            continue
        if k == "UNION":
            out.append("union %s = %s" % (tn, " | ".join(td["possibleSeq"])))
            continue
        if k in ("OBJECT", "INTERFACE"):
            head = ("type " if k == "OBJECT" else "interface ") + tn
            if k == "OBJECT" and tn in implements:
                head += " implements " + " & ".join(implements[tn])
            fl = []
            for fn, fd in td["fields"].items():
                fl.append("  %s%s: %s%s" % (fn, args_sdl(fd["args"], hk), typeref(fd["type"]), hk))
            out.append(head + " {\n" + "\n".join(fl) + "\n}")
            continue
        if k == "INPUT":
            fl = []
            for a in td["inputs"]:
                s = "  %s: %s" % (a["name"], typeref(a["type"]))
                if a.get("hasDefault"):
                    s += " = " + lit(a["default"])
                for d in a.get("dirs", []) or []:
                    s += " " + dir_app(d)
                fl.append(s + hk)
            out.append("input %s {\n%s\n}" % (tn, "\n".join(fl)))
    r = []
    for k in ("query", "mutation", "subscription"):
        if roots.get(k):
            r.append("  %s: %s" % (k, roots[k]))
    out.append("schema {\n" + "\n".join(r) + "\n}")
    return "\n".join(out) + "\n"


class DocText:
    """Query text of a node table.  spans[id] = (start_line, start_col, end_line, end_col)
    1-based, end exclusive, of each node's own text (field incl. sub-selection)."""

    def __init__(self, nodes, layout=0, reverse_defs=False, rename_frags=False):
        if rename_frags:
            # the same document with the fragment names permuted (F1 <-> F2): names carry no meaning
            names = sorted({n["name"] for n in nodes if n["k"] == "FRAG"})
            if rename_frags == "op":
                # fragments take the names of the document's operations (two separate name spaces: still the same document)
                opnames = sorted({n["name"] for n in nodes if n["k"] == "OP" and n["name"]})
                perm = dict(zip(names, opnames))
            else:
                perm = dict(zip(names, names[1:] + names[:1]))
            nodes = [dict(n, name=perm.get(n["name"], n["name"])) if n["k"] in ("FRAG", "S") else n for n in nodes]
        self.nodes = nodes
        self.layout = layout
        self.spans = {}
        self.argspans = {}
        self._buf = []
        self._line = 1
        self._col = 1
        self.children = {}
        for i, n in enumerate(nodes, 1):
            self.children.setdefault(n["parent"], []).append(i)
        defs = self.children.get(0, [])
        if reverse_defs:
            defs = list(reversed(defs))
        for i in defs:
            self._def(i)
            self._nl()
        self.text = "".join(self._buf)

    # -- emit helpers
    def _w(self, s):
        self._buf.append(s)
        for ch in s:
            if ch == "\n":
                self._line += 1
                self._col = 1
            else:
                self._col += 1

    def _nl(self):
        self._w("\n")

    def _sp(self):
        self._w(" ")

    def _pos(self):
        return (self._line, self._col)

    def _dirs(self, n):
        for d in n.get("dirs", []) or []:
            self._sp()
            if "val" in d:
                self._w("@%s(if: %s)" % (d["name"], lit(d["val"])))
            else:
                self._w(dir_app(d))

    def _selset(self, i, depth):
        self._w("{")
        for c in self.children.get(i, []):
            if self.layout == 1:
                self._nl()
                self._w("  " * (depth + 1))
            else:
                self._sp()
            self._sel(c, depth + 1)
        if self.layout == 1:
            self._nl()
            self._w("  " * depth)
        else:
            self._sp()
        self._w("}")

    def _def(self, i):
        n = self.nodes[i - 1]
        st = self._pos()
        if n["k"] == "OP":
            bare = n["optype"] == "query" and not n["name"] and not n.get("vdefs") and not n.get("dirs")
            if not bare:
                self._w(n["optype"])
                if n["name"]:
                    self._sp()
                    self._w(n["name"])
                vd = n.get("vdefs") or []
                if vd:
                    self._w("(")
                    for j, v in enumerate(vd):
                        if j:
                            self._w(", ")
                        self._w("$%s: %s" % (v["name"], typeref(v["type"])))
                        if v.get("hasDefault"):
                            self._w(" = " + lit(v["default"]))
                    self._w(")")
                self._dirs(n)
                self._sp()
            self._selset(i, 0)
        elif n["k"] == "FRAG":
            self._w("fragment %s on %s" % (n["name"], n["cond"]))
            self._dirs(n)
            self._sp()
            self._selset(i, 0)
        elif n["k"] == "RAWDEF":
            self._w(n["name"])
        en = self._pos()
        self.spans[i] = st + en

    def _sel(self, i, depth):
        n = self.nodes[i - 1]
        st = self._pos()
        k = n["k"]
        if k == "F":
            if n["alias"]:
                self._w(n["alias"] + ": ")
            self._w(n["name"])
            if n["args"]:
                self._w("(")
                for j, a in enumerate(n["args"]):
                    if j:
                        self._w(", ")
                    ast = self._pos()
                    self._w("%s: %s" % (a["name"], lit(a["val"])))
                    self.argspans[(i, j)] = ast + self._pos()
                self._w(")")
            self._dirs(n)
            if self.children.get(i):
                self._sp()
                self._selset(i, depth)
        elif k == "I":
            self._w("...")
            if n["cond"]:
                self._w(" on " + n["cond"])
            self._dirs(n)
            self._sp()
            self._selset(i, depth)
        elif k == "S":
            self._w("..." + n["name"])
            self._dirs(n)
        self.spans[i] = st + self._pos()

    def within(self, node_id, line, col):
        sl, sc, el, ec = self.spans[node_id]
        return (sl, sc) <= (line, col) < (el, ec)


def value_py(v):
    """abstract Value -> Python (objects become dicts in key order)"""
    t = v["t"]
    if t == "N":
        return None
    if t in ("B", "I", "S", "E"):
        return v["v"]
    if t == "L":
        return [value_py(x) for x in v["v"]]
    if t == "O":
        return {k: value_py(x) for k, x in v["v"]}
    if t == "F":
        return float(v["v"])
    raise ValueError("value_py: %r" % (v,))


def strict_eq(a, b):
    """equality that distinguishes bool/int/float and dict key order"""
    if type(a) is not type(b):
        return False
    if isinstance(a, dict):
        return list(a.keys()) == list(b.keys()) and all(strict_eq(a[k], b[k]) for k in a)
    if isinstance(a, list):
        return len(a) == len(b) and all(strict_eq(x, y) for x, y in zip(a, b))
    return a == b


def path_spec(path):
    """engine path list -> spec path (list indices written "#i")"""
    return ["#%d" % p if isinstance(p, int) else p for p in path]


def rename_variables(nodes, shared=False):
    """The same document with its variables renamed q1, q2, ... in order of first appearance (names carry no
    meaning; different documents then reuse the same names with different types).  -> (nodes, mapping)
    shared=True: when every operation declares at most one variable, ALL variables get the same name (variables are
    scoped per operation: two operations may use one name for variables of different types)."""
    mapping = {}
    one_name = shared and all(len(n.get("vdefs") or []) <= 1 for n in nodes if n["k"] == "OP")

    def name(v):
        if one_name:
            mapping[v] = "q1"
            return "q1"
        if v not in mapping:
            mapping[v] = "q%d" % (len(mapping) + 1)
        return mapping[v]

    def lit_r(l):
        if l["t"] == "var":
            return dict(l, v=name(l["v"]))
        if l["t"] == "list":
            return dict(l, v=[lit_r(x) for x in l["v"]])
        if l["t"] == "obj":
            return dict(l, v=[[k, lit_r(x)] for k, x in l["v"]])
        return l
    out = []
    for n in nodes:
        n2 = dict(n)
        n2["vdefs"] = [dict(vd, name=name(vd["name"])) for vd in (n.get("vdefs") or [])]
        n2["args"] = [dict(a, val=lit_r(a["val"])) for a in (n.get("args") or [])]
        n2["dirs"] = [dict(d, val=lit_r(d["val"])) if "val" in d else d for d in (n.get("dirs") or [])]
        out.append(n2)
    return out, mapping
