"""Echo world for input coercion (C04 / C05): a schema with one field e<k>(a: T_k) per
declared type of MC_vars' TypeList (plus d<k> with a schema default and a FIELD
directive @p<k>(a: T_k)); resolvers / directive hooks record the argument dictionary."""
import base
from base import main_loop, unique_schema_name, snapshot_and_scribble
import render
import tokens

ENUM_NAME = {"eX": "X", "eY": "Y", "eZ": "Z"}


def value_py(v, k=0):
    t = v["t"]
    if t == "N":
        return None
    if t == "K":
        tok = v["v"]
        if tok in ENUM_NAME:
            return ENUM_NAME[tok]
        reps = tokens.REPS[tok]
        return reps[k % len(reps)]
    if t == "L":
        return [value_py(x, k) for x in v["v"]]
    if t == "O":
        return {key: value_py(x, k) for key, x in v["v"]}
    raise ValueError(v)


def has_enum_literal(l):
    t = l["t"]
    if t == "enum":
        return True
    if t == "list":
        return any(has_enum_literal(x) for x in l["v"])
    if t == "obj":
        return any(has_enum_literal(x) for _k, x in l["v"])
    return False


def lit_text(l, k=0, enum_as_string=False):
    """enum_as_string=True spells every enum value as a STRING literal ("X" for X): never a legal enum literal"""
    t = l["t"]
    v = l.get("v")
    if t == "null":
        return "null"
    if t == "var":
        return "$" + v
    if t == "enum":
        return ('"%s"' if enum_as_string else "%s") % ENUM_NAME.get(v, v)
    if t == "str" and v in ENUM_NAME:
        return '"%s"' % ENUM_NAME[v]
    if t in ("int", "float", "str", "bool"):
        kind = {"int": "IntValue", "float": "FloatValue", "str": "StringValue", "bool": "BooleanValue"}[t]
        return tokens.literal_text(kind, v, k)
    if t == "list":
        return "[" + ", ".join(lit_text(x, k, enum_as_string) for x in v) + "]"
    if t == "obj":
        return "{" + ", ".join("%s: %s" % (key, lit_text(x, k, enum_as_string)) for key, x in v) + "}"
    raise ValueError(l)


class InputWorld:
    def __init__(self, itypes):
        self.types = itypes["types"]
        self.inputs = itypes["inputs"]
        self.goods = itypes["goods"]
        t = base.tartiflette()
        self.sn = unique_schema_name("in")
        self.calls = []
        self.dcalls = []
        w = self
        sdl = ["enum E { X Y }"]
        for name, fields in self.inputs.items():
            fl = []
            for f in fields:
                s = "  %s: %s" % (f["name"], render.typeref(f["type"]))
                if f["hasDefault"]:
                    s += " = " + lit_text(f["default"])
                fl.append(s)
            sdl.append("input %s {\n%s\n}" % (name, "\n".join(fl)))
        sdl.append("directive @guard on ARGUMENT_DEFINITION")
        sdl.append("directive @guardin on INPUT_FIELD_DEFINITION")
        sdl.append("input Ing { v: Int @guardin  w: Int = 2 }")
        q = ["  s: String", "  gd(a: Int @guard, b: Int = 5): String", "  eg(a: Ing): String"]
        for i, ty in enumerate(self.types, 1):
            q.append("  e%d(a: %s): String" % (i, render.typeref(ty)))
            q.append("  d%d(a: %s = %s): String" % (i, render.typeref(ty), lit_text(self.goods[i - 1]["lit"])))
            sdl.append("directive @p%d(a: %s) on FIELD" % (i, render.typeref(ty)))
        sdl.append("type Query {\n%s\n}" % "\n".join(q))
        sdl.append("type Subscription {\n  ug(a: Ing): String\n%s\n}" % "\n".join("  u%d(a: %s): String" % (i, render.typeref(ty)) for i, ty in enumerate(self.types, 1)))
        self.sdl = "\n".join(sdl)

        @t.Resolver("Query.s", schema_name=self.sn)
        async def rs(parent, args, ctx, info):
            return "s"

        @t.Directive("guard", schema_name=self.sn)
        class Guard:
            """an argument-definition directive whose hook raises a plain Python exception for the value 13"""
            async def on_argument_execution(self, directive_args, next_directive, parent_node, argument_definition_node, argument_node, value, ctx):
                v = await next_directive(parent_node, argument_definition_node, argument_node, value, ctx)
                if v == 13 and not isinstance(v, bool):
                    raise ValueError("guard refuses 13")
                return v

        @t.Directive("guardin", schema_name=self.sn)
        class GuardIn:
            """an input-field directive whose hook raises a plain Python exception for the value 13 (a validation the type system cannot express)"""
            async def on_post_input_coercion(self, directive_args, next_directive, parent_node, value, ctx):
                v = await next_directive(parent_node, value, ctx)
                if v == 13 and not isinstance(v, bool):
                    raise ValueError("guardin refuses 13")
                return v

        @t.Resolver("Query.eg", schema_name=self.sn)
        async def reg(parent, args, ctx, info):
            w.calls.append(("eg", info.path.as_list()[-1], snapshot_and_scribble(args)))
            return "ok"

        @t.Subscription("Subscription.ug", schema_name=self.sn)
        async def srcg(parent, args, ctx, info):
            w.calls.append(("ug-source", info.path.as_list()[-1], snapshot_and_scribble(args)))
            yield {"ug": "ev"}

        @t.Resolver("Subscription.ug", schema_name=self.sn)
        async def rug(parent, args, ctx, info):
            w.calls.append(("ug", info.path.as_list()[-1], snapshot_and_scribble(args)))
            return "ok"

        @t.Resolver("Query.gd", schema_name=self.sn)
        async def rgd(parent, args, ctx, info):
            w.calls.append(("gd", info.path.as_list()[-1], snapshot_and_scribble(args)))
            return "ok"
        for i in range(1, len(self.types) + 1):
            def mk(i):
                @t.Resolver("Query.e%d" % i, schema_name=self.sn)
                async def r(parent, args, ctx, info):
                    w.calls.append(("e%d" % i, info.path.as_list()[-1], snapshot_and_scribble(args)))
                    return "ok"

                @t.Resolver("Query.d%d" % i, schema_name=self.sn)
                async def r2(parent, args, ctx, info):
                    w.calls.append(("d%d" % i, info.path.as_list()[-1], snapshot_and_scribble(args)))
                    return "ok"

                @t.Directive("p%d" % i, schema_name=self.sn)
                class P:
                    async def on_field_execution(self, directive_args, next_resolver, parent_result, args, ctx, info):
                        w.dcalls.append(("p%d" % i, snapshot_and_scribble(directive_args)))
                        return await next_resolver(parent_result, args, ctx, info)
                @t.Subscription("Subscription.u%d" % i, schema_name=self.sn)
                async def src(parent, args, ctx, info):
                    w.calls.append(("u%d-source" % i, info.path.as_list()[-1], snapshot_and_scribble(args)))
                    yield {"u%d" % i: "ev"}

                @t.Resolver("Subscription.u%d" % i, schema_name=self.sn)
                async def r3(parent, args, ctx, info):
                    w.calls.append(("u%d" % i, info.path.as_list()[-1], snapshot_and_scribble(args)))
                    return "ok"
            mk(i)
        self.eng = main_loop().run(t.create_engine(self.sdl, schema_name=self.sn))

    def run(self, query, variables=None):
        self.calls = []
        self.dcalls = []
        try:
            return main_loop().run(self.eng.execute(query, variables=variables))
        except BaseException as e:
            return {"__raised__": repr(e)}


def _run_sub(self, query, variables=None):
    """subscribe, take the first response, close the stream"""
    self.calls = []
    self.dcalls = []

    async def first():
        agen = self.eng.subscribe(query, variables=variables)
        try:
            return await agen.__anext__()
        except StopAsyncIteration:
            return {"__ended__": True}
        finally:
            await agen.aclose()
    try:
        return main_loop().run(first())
    except BaseException as e:
        return {"__raised__": repr(e)}


InputWorld.run_sub = _run_sub


def expected_args(args, k=0):
    return {name: value_py(v, k) for name, v in args["v"]}
