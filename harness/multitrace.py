"""R3 driver for C15: several requests (different documents drawn by TLC in simulation
mode, with failing resolvers) are put in flight on ONE engine, started at different moments
and interleaved by a schedule chosen HERE (seeded random).  Every start / release and the
pending sets of ALL requests it leaves are logged; TLC validates each execution against a
product of independent copies of the scheduler specification (Trace_multi)."""
import random
import zlib

import genrun
import render
import tlc
import tracecheck
from execworld import World
import execreplay
from schedtrace import FLAGSETS, tag


def job(j):
    seed = j["seed"]
    rng = random.Random(seed * 7919 + 13)
    st = {"world": None, "cases": [], "perdoc": {}}

    def on_line(rec):
        if rec["kind"] == "schema":
            if st["world"] is None:
                st["world"] = World(rec["types"], rec["roots"])
            return
        # at most two failure variants per document, so that the pool holds many different documents
        key = repr(rec["nodes"])
        # (which variants: a seed-dependent third of them, so that the failures do not always sit at the first positions)
        if (zlib.crc32(repr(rec["overlay"]).encode()) + seed) % 3 != 0:
            return
        st["perdoc"][key] = st["perdoc"].get(key, 0) + 1
        if st["perdoc"][key] > 2:
            return
        if len(st["cases"]) < j["max_cases"]:
            st["cases"].append(rec)
        else:
            raise StopIteration
    simcfg = j.get("simcfg", "MC_faults_sim.cfg")
    res = tlc.run("MC_faults.tla", simcfg, on_line=on_line, workers=1, simulate=j["behaviours"], depth=40, seed=seed, timeout=1500)
    w = st["world"]
    cases = st["cases"]
    frag_cases = [c for c in cases if any(n["k"] == "FRAG" for n in c["nodes"])]
    all_fields = sorted({f for td in w.types.values() if td["kind"] == "OBJECT" for f in td["fields"]})
    records, meta = [], {}
    switches_total = 0
    late_starts = 0
    for tid in range(1, j["groups"] + 1):
        if len(cases) < 2:
            break
        k = rng.choice([2, 2, 3, 3, 4])
        # half of the groups are drawn from the documents that define fragments (different documents, same fragment names)
        pool = frag_cases if (len(frag_cases) >= 2 and rng.random() < 0.5) else cases
        group = [pool[rng.randrange(len(pool))] for _ in range(k)]
        if rng.random() < 0.2:
            group[1] = group[0]          # the same document twice (same cached parse)
        fl = FLAGSETS[rng.randrange(len(FLAGSETS))]
        seq = all_fields if fl["seq"] == "ALL" else fl["seq"]
        cfg = {"list_conc": bool(fl["lconc"]), "seq_fields": tuple(sorted(seq))}
        runs = [execreplay.GatedRun(w, dict(c, seq=seq, lconc=fl["lconc"]), cfg) for c in group]
        started = []
        events = []
        guard = 0

        def snapshot():
            return [sorted(map(list, g.pending())) if g.task is not None else [] for g in runs]
        last_rid = None
        switches = 0
        while guard < 2000:
            guard += 1
            unstarted = [n for n in range(k) if n not in started]
            choices = [(n, p) for n in started for p in sorted(runs[n].pending())]
            if unstarted and (not choices or rng.random() < 0.35):
                n = unstarted[0] if rng.random() < 0.7 else rng.choice(unstarted)
                if started and events and any(e["kind"] == "release" for e in events):
                    late_starts += 1
                runs[n].start()
                started.append(n)
                events.append({"kind": "start", "rid": n + 1, "p": [], "pending": snapshot()})
                continue
            if not choices:
                break
            n, p = choices[rng.randrange(len(choices))]
            runs[n].release(p)
            if last_rid is not None and last_rid != n:
                switches += 1
            last_rid = n
            events.append({"kind": "release", "rid": n + 1, "p": list(p), "pending": snapshot()})
        switches_total += switches
        stuck = [n for n in range(k) if runs[n].task is None or not runs[n].done()]
        for n in stuck:
            g = runs[n]
            for f in g.cs.gates.values():
                if not f.done():
                    f.cancel()
            if g.task is not None:
                g.task.cancel()
        if stuck:
            execreplay.main_loop().idle()
        w.case = None
        alive = bool(execreplay.main_loop().live_tasks())
        reqs = []
        for n, g in enumerate(runs):
            resp = {"__raised__": "deadlock"} if n in stuck else g.result()
            leftover = (n in stuck) or alive or bool(g.pending()) or not isinstance(resp, dict) or "__raised__" in resp
            errpaths = []
            if isinstance(resp, dict):
                for e in resp.get("errors") or []:
                    if isinstance(e, dict) and isinstance(e.get("path"), list):
                        errpaths.append(render.path_spec(e["path"]))
                    else:
                        leftover = True
            # every resolver call of this request was handed this request's own context object
            for _path, _p, _a, ctx in g.cs.calls:
                if ctx is not g.cs.ctx:
                    leftover = True
            c = group[n]
            reqs.append({"nodes": c["nodes"], "op": c["op"], "vars": c["cvars"], "overlay": c["overlay"],
                         "data": tag(resp.get("data") if isinstance(resp, dict) else None), "errpaths": errpaths, "leftover": leftover})
        records.append({"tid": tid, "seq": seq, "lconc": fl["lconc"], "reqs": reqs, "events": events})
        meta[tid] = {"documents": [g.doc.text for g in runs], "faults": [c["overlay"] for c in group],
                     "seq_fields": seq if fl["seq"] != "ALL" else "ALL", "list_concurrently": fl["lconc"],
                     "schedule": [[e["kind"], e["rid"], e["p"]] for e in events],
                     "responses": [repr(g.result() if g.task is not None and g.done() else None)[:800] for g in runs]}
    verdicts, tres = tracecheck.judge("Trace_multi.tla", "Trace_multi.cfg", records, timeout=2400)
    viol = []
    nonconf = sum(1 for r in records if verdicts[r["tid"]][0] and verdicts[r["tid"]][1])
    for r in records:
        ok, clause = verdicts[r["tid"]]
        if not ok and len(viol) < 400:
            genrun.add_viol(viol, ({"kind": "trace-rejected", "clause": clause}, {"record": r, "meta": meta[r["tid"]]}))
    extra_out = {"records": records} if j.get("keep_records") else {}
    return {**extra_out, "job": j, "tlc": [genrun.tlc_summary("%s(simulate seed=%d)" % (simcfg, seed), res, exhaustive=False), genrun.tlc_summary("Trace_multi.cfg", tres)],
            "evaluations": len(records), "traces": len(records),
            "distinct": [hash(repr(meta[t]["documents"]) + repr(meta[t]["schedule"])) for t in meta],
            "samples": [meta[t] for t in list(meta)[1:2]], "violations": viol,
            "extra": {"multi_traces_accepted_but_not_model_conformant": nonconf, "multi_trace_events": sum(len(r["events"]) for r in records),
                      "multi_trace_request_switches": switches_total, "multi_traces_with_request_started_after_a_release": late_starts}}
