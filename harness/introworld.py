"""A schema that refuses introspection (`schema @nonIntrospectable`), used by the auxiliary engine-vs-expectation jobs of
C15 (requests in flight together) and C16 (sequences of refused requests)."""
import asyncio

import base
from base import main_loop, unique_schema_name

SDL = """
type T { s: String  t: T }
type Query { slow: Int  quick: Int  o: T }
schema @nonIntrospectable { query: Query }
"""


def cook(error_coercer=None):
    t = base.tartiflette()
    sn = unique_schema_name("noint")

    @t.Resolver("Query.slow", schema_name=sn, parent_concurrently=False)
    async def slow(parent, args, ctx, info):
        for _ in range(12):
            await asyncio.sleep(0)
        return 1

    @t.Resolver("Query.quick", schema_name=sn)
    async def quick(parent, args, ctx, info):
        await asyncio.sleep(0)
        return 2
    kw = {"error_coercer": error_coercer} if error_coercer else {}
    return main_loop().run(t.create_engine(SDL, schema_name=sn, **kw))


def position_of(text, token):
    """1-based (line, column) of the first occurrence of `token`"""
    i = text.index(token)
    line = text.count("\n", 0, i) + 1
    col = i - (text.rfind("\n", 0, i) + 1) + 1
    return line, col


# refused introspection requests of different layouts: (query text, response key of the refused field, token that starts that field)
REFUSED = [
    ('{ __type(name: "Query") { name } }', "__type", "__type"),
    ('query Q {\n  quick\n  t: __type(name: "T") { kind }\n}', "t", "t: __type"),
    ('{ __schema { queryType { name } } }', "__schema", "__schema"),
    ('query S {\n\n    quick   sch: __schema { types { name } } }', "sch", "sch: __schema"),
    ('{ quick again: __type(name: "Query") { name } }', "again", "again: __type"),
]


def check_refusal(text, key, token, resp):
    """-> list of complaints about the answer to a refused introspection request"""
    out = []
    if not isinstance(resp, dict) or "__raised__" in resp:
        return ["execute raised / non-dict: %r" % (resp,)]
    errs = resp.get("errors") or []
    mine = [e for e in errs if isinstance(e, dict) and "ntrospection" in str(e.get("message"))]
    if len(mine) != 1:
        return ["expected exactly one 'introspection is disabled' error, got %r" % (errs,)]
    e = mine[0]
    if e.get("path") != [key]:
        out.append("refusal reported at path %r, the refused field's response key is %r" % (e.get("path"), key))
    line, col = position_of(text, token)
    locs = e.get("locations") or []
    if {(l.get("line"), l.get("column")) for l in locs} != {(line, col)}:
        out.append("refusal located at %r, the refused field starts at line %d column %d" % (locs, line, col))
    if (resp.get("data") or {}).get(key) is not None:
        out.append("refused introspection field answered %r" % ((resp.get("data") or {}).get(key),))
    return out
