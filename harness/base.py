"""Foundations shared by every check: stand-in parser installation, import of the
engine from /repo's working tree, a controlled event loop and small helpers.

Nothing here decides a property: it renders, drives, projects and compares."""
import asyncio
import itertools
import json
import os
import sys

REPO = os.environ.get("VERIF_REPO", "/repo")
VERIF = os.path.dirname(os.path.dirname(os.path.abspath(__file__)))

sys.dont_write_bytecode = True
if REPO not in sys.path:
    sys.path.insert(0, REPO)
_here = os.path.dirname(os.path.abspath(__file__))
if _here not in sys.path:
    sys.path.insert(0, _here)

import warnings
warnings.filterwarnings("ignore", message="coroutine .* was never awaited")
import gqlstub  # noqa: E402  (installs the stand-in for libgraphqlparser before tartiflette is imported)

_counter = itertools.count()


def unique_schema_name(prefix="v"):
    return "%s_%d_%d" % (prefix, os.getpid(), next(_counter))


def tartiflette():
    import tartiflette as t
    return t


class Loop:
    """A fresh asyncio loop driven by hand: run_until_idle() runs every ready callback
    until nothing is runnable, which leaves the engine suspended exactly on the
    futures ("gates") the harness owns."""

    def __init__(self):
        self.loop = asyncio.new_event_loop()
        asyncio.set_event_loop(self.loop)

    def idle(self, max_iter=1000000):
        loop = self.loop
        n = 0
        while loop._ready:
            loop._run_once()
            n += 1
            if n > max_iter:
                raise RuntimeError("event loop does not go idle")

    def run(self, coro):
        return self.loop.run_until_complete(coro)

    def task(self, coro):
        return self.loop.create_task(coro)

    def future(self):
        return self.loop.create_future()

    def live_tasks(self):
        return [t for t in asyncio.all_tasks(self.loop) if not t.done()]

    def close(self):
        try:
            self.loop.close()
        finally:
            asyncio.set_event_loop(None)


_MAIN_LOOP = None


def main_loop():
    global _MAIN_LOOP
    if _MAIN_LOOP is None:
        _MAIN_LOOP = Loop()
    return _MAIN_LOOP


def cook(sdl, schema_name=None, **kw):
    """create_engine synchronously on the main loop; returns (engine, schema_name)."""
    t = tartiflette()
    sn = schema_name or unique_schema_name()
    eng = main_loop().run(t.create_engine(sdl, schema_name=sn, **kw))
    return eng, sn


def jdump(x):
    return json.dumps(x, sort_keys=False, separators=(",", ":"), default=repr)
