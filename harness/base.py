"""Foundations shared by every check: stand-in parser installation, import of the
engine from /repo's working tree, a controlled event loop and small helpers.

Nothing here decides a property: it renders, drives, projects and compares."""
import asyncio
import itertools
import json
import os
import sys

REPO = os.environ.get("VERIF_REPO", "/repo")
VERIF = os.path.dirname(os.path.dirname(os.path.abspath(__file__)))

sys.dont_write_bytecode = True
if REPO not in sys.path:
    sys.path.insert(0, REPO)
_here = os.path.dirname(os.path.abspath(__file__))
if _here not in sys.path:
    sys.path.insert(0, _here)

import warnings
warnings.filterwarnings("ignore", message="coroutine .* was never awaited")
import gqlstub  # noqa: E402  (installs the stand-in for libgraphqlparser before tartiflette is imported)

_counter = itertools.count()


def unique_schema_name(prefix="v"):
    return "%s_%d_%d" % (prefix, os.getpid(), next(_counter))


def tartiflette():
    import tartiflette as t
    return t


EXEC_TIMEOUT = float(os.environ.get("VERIF_EXEC_TIMEOUT", "20"))


class Loop:
    """A fresh asyncio loop driven by hand: run_until_idle() runs every ready callback
    until nothing is runnable, which leaves the engine suspended exactly on the
    futures ("gates") the harness owns."""

    def __init__(self):
        self.loop = asyncio.new_event_loop()
        asyncio.set_event_loop(self.loop)

    def idle(self, max_iter=1000000):
        loop = self.loop
        n = 0
        while loop._ready:
            loop._run_once()
            n += 1
            if n > max_iter:
                raise RuntimeError("event loop does not go idle")

    def run(self, coro, timeout=None):
        """run to completion; an execution that does not finish within EXEC_TIMEOUT seconds (deadlock inside the engine:
        ungated executions take milliseconds) raises asyncio.TimeoutError - an observation like any other exception"""
        timeout = EXEC_TIMEOUT if timeout is None else timeout
        if timeout and (asyncio.iscoroutine(coro) or isinstance(coro, asyncio.Future)):
            return self.loop.run_until_complete(asyncio.wait_for(coro, timeout))
        return self.loop.run_until_complete(coro)

    def task(self, coro):
        return self.loop.create_task(coro)

    def future(self):
        return self.loop.create_future()

    def live_tasks(self):
        return [t for t in asyncio.all_tasks(self.loop) if not t.done()]

    def close(self):
        try:
            self.loop.close()
        finally:
            asyncio.set_event_loop(None)


_MAIN_LOOP = None


def main_loop():
    global _MAIN_LOOP
    if _MAIN_LOOP is None:
        _MAIN_LOOP = Loop()
    return _MAIN_LOOP


def cook(sdl, schema_name=None, **kw):
    """create_engine synchronously on the main loop; returns (engine, schema_name)."""
    t = tartiflette()
    sn = schema_name or unique_schema_name()
    eng = main_loop().run(t.create_engine(sdl, schema_name=sn, **kw))
    return eng, sn


def jdump(x):
    return json.dumps(x, sort_keys=False, separators=(",", ":"), default=repr)


def snapshot_and_scribble(args, mark="__scribbled__"):
    """What user code is entitled to do with the `args` a resolver / directive hook receives: keep it and modify it.
    Returns a deep copy of `args` as received, then writes into the received dictionary and into every list / dictionary
    it contains.  The objects belong to this one call: if the engine shares them (between calls, requests or with the
    schema's default values), a later call receives the scribbles and its recorded arguments differ from the predicted ones."""
    import copy
    snap = copy.deepcopy(args)

    def scr(v, depth=0):
        if depth > 6:
            return
        if isinstance(v, list):
            for x in v:
                scr(x, depth + 1)
            v.append(mark)
        elif isinstance(v, dict):
            for x in list(v.values()):
                scr(x, depth + 1)
            v[mark] = mark
    if isinstance(args, dict):
        scr(args)
    return snap
