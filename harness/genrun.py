"""Run several (TLC config, replay handler) jobs in parallel worker processes and
merge what they covered / found into a Report."""
import importlib
import os
import sys
import traceback
from concurrent.futures import ProcessPoolExecutor, as_completed
import multiprocessing as mp

import tlc


def _job(args):
    modname, fn, job = args
    try:
        mod = importlib.import_module(modname)
        return getattr(mod, fn)(job)
    except tlc.TLCError as e:
        return {"job": job, "machinery_error": str(e)}
    except BaseException:
        return {"job": job, "machinery_error": traceback.format_exc()}


def run_jobs(modname, fn, jobs, max_workers=None):
    max_workers = max_workers or min(len(jobs), max(1, (os.cpu_count() or 4)))
    ctx = mp.get_context("spawn")
    out = []
    with ProcessPoolExecutor(max_workers=max_workers, mp_context=ctx) as ex:
        futs = [ex.submit(_job, (modname, fn, j)) for j in jobs]
        for f in as_completed(futs):
            out.append(f.result())
    return out


def merge(report, results):
    """results: list of dicts with keys tlc (dict), evaluations, traces, distinct (list),
    samples (list), violations (list of (sig, detail)), machinery_error"""
    bad = []
    for r in results:
        if r.get("machinery_error"):
            bad.append(r)
            continue
        for t in r.get("tlc", []):
            report.states += t["distinct"] or t["states"]
            report.transitions += t["states"]
            report.configs.append({"config": t["name"], "states_generated": t["states"], "distinct_states": t["distinct"],
                                   "depth": t["depth"], "cases_printed": t["lines"], "wall_s": round(t["wall"], 1),
                                   "exhaustive": t["exhaustive"]})
            if not t["exhaustive"]:
                report.exhaustive = False
            if t.get("violated"):
                report.spec_violation(t["name"], t["violated"], t.get("text", ""))
        report.evaluations += r.get("evaluations", 0)
        report.traces += r.get("traces", 0)
        for d in r.get("distinct", []):
            report.nontrivial(d if not isinstance(d, list) else tuple(map(str, d)))
        for s in r.get("samples", []):
            report.sample(s)
        for sig, detail in r.get("violations", []):
            report.violation(sig, detail)
        for k, v in r.get("extra", {}).items():
            if isinstance(v, int):
                report.extra[k] = report.extra.get(k, 0) + v
            else:
                report.extra[k] = v
    return bad


def tlc_summary(name, res, exhaustive=True):
    return {"name": name, "states": res.states, "distinct": res.distinct, "depth": res.depth, "lines": res.lines,
            "wall": res.wall, "exhaustive": exhaustive, "violated": res.violated,
            "text": res.error_text[-3000:] if res.violated else ""}


def add_viol(lst, item):
    """keep one detailed example per distinct signature (so that violations absorbed by a
    known finding can never crowd out a different violation)"""
    import json as _json
    key = _json.dumps(item[0], sort_keys=True, default=repr)
    for sig, _d in lst:
        if _json.dumps(sig, sort_keys=True, default=repr) == key:
            return
    lst.append(item)
