"""Run several (TLC config, replay handler) jobs in parallel worker processes and
merge what they covered / found into a Report."""
import importlib
import os
import sys
import traceback
from concurrent.futures import ProcessPoolExecutor, as_completed
import multiprocessing as mp

import tlc


def _plain(x, depth=0):
    """a picklable, JSON-like copy of a job result (whatever object an engine put into a response becomes its repr)"""
    if isinstance(x, (str, int, float, bool)) or x is None:
        return x
    if depth > 40:
        return repr(x)[:200]
    if isinstance(x, dict):
        return {(k if isinstance(k, (str, int, float, bool)) or k is None else repr(k)): _plain(v, depth + 1) for k, v in x.items()}
    if isinstance(x, tuple):
        return tuple(_plain(v, depth + 1) for v in x)
    if isinstance(x, (list, set, frozenset)):
        return [_plain(v, depth + 1) for v in x]
    return repr(x)[:400]


def _job(args):
    modname, fn, job = args
    try:
        mod = importlib.import_module(modname)
        return _plain(getattr(mod, fn)(job))
    except tlc.TLCError as e:
        return {"job": job, "machinery_error": str(e)}
    except BaseException:
        return {"job": job, "machinery_error": traceback.format_exc()}


def run_jobs(modname, fn, jobs, max_workers=None):
    max_workers = max_workers or min(len(jobs), max(1, (os.cpu_count() or 4)))
    ctx = mp.get_context("spawn")
    out = []
    with ProcessPoolExecutor(max_workers=max_workers, mp_context=ctx) as ex:
        futs = {ex.submit(_job, (modname, fn, j)): j for j in jobs}
        for f in as_completed(futs):
            try:
                out.append(f.result())
            except BaseException:
                out.append({"job": futs[f], "machinery_error": traceback.format_exc()})
    return out


def merge(report, results):
    """results: list of dicts with keys tlc (dict), evaluations, traces, distinct (list),
    samples (list), violations (list of (sig, detail)), machinery_error"""
    bad = []
    for r in results:
        if r.get("machinery_error"):
            bad.append(r)
            continue
        for t in r.get("tlc", []):
            report.states += t["distinct"] or t["states"]
            report.transitions += t["states"]
            report.configs.append({"config": t["name"], "states_generated": t["states"], "distinct_states": t["distinct"],
                                   "depth": t["depth"], "cases_printed": t["lines"], "wall_s": round(t["wall"], 1),
                                   "exhaustive": t["exhaustive"]})
            if not t["exhaustive"]:
                report.exhaustive = False
            if t.get("violated"):
                report.spec_violation(t["name"], t["violated"], t.get("text", ""))
        report.evaluations += r.get("evaluations", 0)
        report.traces += r.get("traces", 0)
        for d in r.get("distinct", []):
            report.nontrivial(d if not isinstance(d, list) else tuple(map(str, d)))
        for s in r.get("samples", []):
            report.sample(s)
        for sig, detail in r.get("violations", []):
            report.violation(sig, detail)
        for k, v in r.get("extra", {}).items():
            if isinstance(v, int):
                report.extra[k] = report.extra.get(k, 0) + v
            else:
                report.extra[k] = v
    return bad


def tlc_summary(name, res, exhaustive=True):
    return {"name": name, "states": res.states, "distinct": res.distinct, "depth": res.depth, "lines": res.lines,
            "wall": res.wall, "exhaustive": exhaustive, "violated": res.violated,
            "text": res.error_text[-3000:] if res.violated else ""}


def add_viol(lst, item):
    """keep one detailed example per distinct signature (so that violations absorbed by a
    known finding can never crowd out a different violation)"""
    import json as _json
    key = _json.dumps(item[0], sort_keys=True, default=repr)
    for sig, _d in lst:
        if _json.dumps(sig, sort_keys=True, default=repr) == key:
            return
    lst.append(item)


_KNOWN_CACHE = {}


def enough(lst, pid, cap=60):
    """True when `lst` holds at least `cap` distinct violation signatures that no open known finding of property `pid`
    absorbs: a job may then stop early (the check fails anyway; going on only costs time - a change that makes every
    case fail can also make every case slow)."""
    import common
    if pid not in _KNOWN_CACHE:
        _KNOWN_CACHE[pid] = [f.get("match", {}) for f in common.load_known().get("findings", []) if f.get("property") == pid and f.get("status") == "open"]
    known = _KNOWN_CACHE[pid]
    n = 0
    for sig, _d in lst:
        if not any(all(sig.get(a) == b for a, b in m.items()) for m in known):
            n += 1
            if n >= cap:
                return True
    return False


class Budget:
    """Early stop for jobs whose every case fails: counts ALL violations no open known finding absorbs (not only distinct
    signatures) and the wall-clock time spent since the first of them."""

    def __init__(self, pid, cap=300, seconds=120):
        import time
        self.pid, self.cap, self.seconds = pid, cap, seconds
        self.n = 0
        self.t0 = None
        self._time = time.time

    def note(self, sig):
        """record one violation; True = stop now"""
        import common
        if self.pid not in _KNOWN_CACHE:
            _KNOWN_CACHE[self.pid] = [f.get("match", {}) for f in common.load_known().get("findings", []) if f.get("property") == self.pid and f.get("status") == "open"]
        if any(all(sig.get(a) == b for a, b in m.items()) for m in _KNOWN_CACHE[self.pid]):
            return False
        self.n += 1
        if self.t0 is None:
            self.t0 = self._time()
        return self.n >= self.cap or (self._time() - self.t0) > self.seconds
