"""Concrete representatives of the value tokens of Scalars.tla (aligned families: the
k-th representative of one family corresponds to the k-th of a related one) and the
projection of concrete values back onto tokens.  Pure table + lookup."""
import math
from datetime import datetime


class Attrs:
    def __init__(self):
        self.a = 1

    def __repr__(self):
        return "<Attrs>"


S3 = [7, -1, 12]
REPS = {
    "bT": [True], "bF": [False],
    "iS": S3, "iONE": [1], "iZERO": [0], "iMAX": [2**31 - 1], "iMIN": [-2**31],
    "iOVER": [2**31, -2**31 - 1], "i2P53": [2**53, -2**53], "iHUGE": [10**30],
    "fS": [float(x) for x in S3], "fONE": [1.0], "fZERO": [0.0], "fMAX": [float(2**31 - 1)], "fMIN": [float(-2**31)],
    "fOVER": [float(2**31), float(-2**31 - 1)], "f2P53": [float(2**53), float(-2**53)], "fHUGEI": [1e30],
    "fFRAC": [1.5, -0.25, 3.14], "fDENORM": [5e-324], "fBIG": [1e308],
    "NAN": [float("nan")], "PINF": [float("inf")], "NINF": [float("-inf")],
    "sS": [str(x) for x in S3], "sONE": ["1"], "sZERO": ["0"], "sMAX": [str(2**31 - 1)], "sMIN": [str(-2**31)],
    "sOVER": [str(2**31), str(-2**31 - 1)], "sFRAC": ["1.5", "-0.25", "3.14"],
    "s2P53": [str(2**53), str(-2**53)], "sHUGE": [str(10**30)],
    "sEMPTY": [""], "sBLANK": [" ", "\t "], "sTXT": ["abc", "null"], "sUNI": ["é☃", "a\"b\\c"],
    "sTRUE": ["true"], "sFALSE": ["false"], "sNONFIN": ["nan", "inf", "-Infinity", "1e999", " inf "],
    "dDate": [datetime(2020, 1, 31), datetime(1999, 12, 1), datetime(999, 12, 31), datetime(1, 1, 1)], "sDate": ["2020-01-31", "1999-12-01", "0999-12-31", "0001-01-01"],
    "dTime": [datetime(1900, 1, 1, 10, 20, 30), datetime(1900, 1, 1, 0, 0, 1)], "sTime": ["10:20:30", "00:00:01"],
    "dDateTime": [datetime(2020, 1, 31, 10, 20, 30), datetime(1999, 12, 1, 23, 59, 59), datetime(999, 12, 31, 1, 2, 3)], "sDateTime": ["2020-01-31T10:20:30", "1999-12-01T23:59:59", "0999-12-31T01:02:03"],
    "sDATEBAD": ["2020-13-45", "25:61:61", "2020-01-31 10:20:30"],
    "LIST": [[1], []], "DICT": [{"a": 1}], "BYTES": [b"x"], "TUPLE": [(1,)], "SET": [{1}], "OBJ": [Attrs()], "EXC": [ValueError("x")],
}
# literal spellings (GraphQL source text) of the tokens that have one
LIT_TEXT = {
    "fLITINF": ["1e400", "-1e999"],
    "eNAME": ["FOO"],
    "fBIG": ["1e308"], "fDENORM": ["5e-324"], "fHUGEI": ["1e30", "1000000000000000000000000000000.0"],
}


def literal_text(kind, tok, k):
    if tok in LIT_TEXT:
        v = LIT_TEXT[tok]
        return v[k % len(v)]
    rep = REPS[tok][k % len(REPS[tok])]
    if kind == "IntValue":
        return str(rep)
    if kind == "FloatValue":
        return repr(rep)
    if kind == "StringValue":
        import render
        return render.gql_string(rep)
    if kind == "BooleanValue":
        return "true" if rep else "false"
    if kind == "ListValue":
        return "[1]"
    if kind == "ObjectValue":
        return "{a: 1}"
    raise KeyError((kind, tok))


def nreps(tok):
    if tok in REPS:
        return len(REPS[tok])
    return len(LIT_TEXT[tok])


def same(a, b):
    """type-strict equality (bool/int/float distinguished; NaN equals NaN)"""
    if type(a) is not type(b):
        return False
    if isinstance(a, float) and math.isnan(a) and math.isnan(b):
        return True
    return a == b


def matches(actual, out_tok, in_tok, k):
    """does the concrete result `actual` realise outcome token out_tok for the k-th
    representative of in_tok?"""
    if out_tok == "ANYSTR":
        return isinstance(actual, str)
    reps = REPS.get(out_tok)
    if reps is None:
        return False
    if out_tok == in_tok or len(reps) == nreps(in_tok):
        return same(actual, reps[k % len(reps)])
    return any(same(actual, r) for r in reps)
