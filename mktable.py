#!/usr/bin/env python3
"""Prints the table of DESIGN.md section 11.3 from the evidence files of the last quick run."""
import glob, json, os
HERE = os.path.dirname(os.path.abspath(__file__))
print("| id | TLC configurations (quick tier) | distinct states | cases replayed | traces judged by TLC | wall |")
print("|---|---|---|---|---|---|")
for f in sorted(glob.glob(os.path.join(HERE, "evidence", "C*.json"))):
    e = json.load(open(f))
    c = e["coverage"]
    cfgs = sorted({x["config"].split("(")[0].replace(".cfg", "") for x in c.get("tlc_configs", [])})
    short = ", ".join(cfgs) if len(cfgs) <= 6 else ", ".join(cfgs[:5]) + " ... (%d)" % len(cfgs)
    print("| %s | %s | %s | %s | %s | %.0f s |" % (e["property_id"], short, f"{c['states']:,}", f"{c.get('tlc_behaviours_replayed_into_impl', 0):,}",
                                                f"{c.get('impl_traces_judged_by_tlc', 0):,}", e["wall_s"]))
