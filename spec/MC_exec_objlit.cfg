SPECIFICATION Spec
CONSTANTS
  Types <- TypesExec
  Roots <- RootsExec
  MaxSel = 2
  MaxDepth = 3
  MaxFrags = 0
  MaxOps = 1
  OpTypes = {"query"}
  FieldAlpha <- AlphaObjLit
  Aliases = {"", "z"}
  Conds = {""}
  DirOpts <- NoDirs
  ArgOpts <- ArgOptsObjLit
  VarTypes <- VarTypesStd
  VarVals <- VarValsStd
  MaxOverlay = 0
  TRSets <- NoTR
  FalsyOverlays = FALSE
INVARIANT R1_Exec
INVARIANT Emit
CHECK_DEADLOCK FALSE
