SPECIFICATION SpecSub
CONSTANTS
  Types <- TypesExec
  Roots <- RootsExec
  MaxSel = 3
  MaxDepth = 3
  MaxFrags = 1
  MaxOps = 1
  OpTypes = {"subscription"}
  FieldAlpha <- AlphaSub2
  Aliases = {""}
  Conds = {"T", "Subscription"}
  DirOpts <- NoDirs
  ArgOpts <- ArgOptsSub3
  VarTypes <- VarTypesStd
  VarVals <- VarValsSmall
  MaxOverlay = 0
  TRSets <- NoTR
  FalsyOverlays = FALSE
  MaxFaults = 1
  MaxEvents = 2
  EventKinds <- EvKinds
  AllowRefused = FALSE
INVARIANT R1_Sub
INVARIANT EmitSub
PROPERTY SubProgress
CHECK_DEADLOCK FALSE
