SPECIFICATION Spec
CONSTANTS
  Types <- TypesExec
  Roots <- RootsExec
  MaxSel = 3
  MaxDepth = 3
  MaxFrags = 0
  MaxOps = 1
  OpTypes = {"query"}
  FieldAlpha <- AlphaLong
  Aliases = {""}
  Conds = {""}
  DirOpts <- NoDirs
  ArgOpts <- ArgOptsNone
  VarTypes <- VarTypesStd
  VarVals <- VarValsStd
  MaxOverlay = 2
  TRSets <- NoTR
  FalsyOverlays = FALSE
INVARIANT R1_Exec
INVARIANT Emit
CHECK_DEADLOCK FALSE
