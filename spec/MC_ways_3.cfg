SPECIFICATION Spec
CONSTANTS
  MODE = "ways"
  TLO = 45
  THI = 52
INVARIANT R1_Ways
INVARIANT EmitWays
CHECK_DEADLOCK FALSE
