SPECIFICATION Spec
CONSTANTS
  Types <- TypesExec
  Roots <- RootsExec
  MaxSel = 4
  MaxDepth = 2
  MaxFrags = 2
  MaxOps = 2
  OpTypes = {"query"}
  FieldAlpha <- AlphaOps2
  Aliases = {""}
  Conds = {"Query"}
  DirOpts <- DirsVarOnly
  ArgOpts <- ArgOptsOps2
  VarTypes <- VarTypesStd
  VarVals <- VarValsSmall
  MaxOverlay = 0
  TRSets <- NoTR
  FalsyOverlays = FALSE
INVARIANT R1_Exec
INVARIANT Emit
CHECK_DEADLOCK FALSE
