------------------------------- MODULE Engine -------------------------------
(* The engine as a process: requests over a pool of documents, the parse/validate
   cache as explicit state, operation selection and variable presence checks, and the
   response classes of C18.

   A request is [doc, spelling \in {"str","bytes"}, opName ("" = none), given].
   Docs: doc id -> [class \in {"valid","invalid","broken"}, nodes]                   *)
EXTENDS Sched

CONSTANTS Docs, ReqPool, Capacity, MaxLen

Unlimited == 99

\* ---- what parsing + validation yields for a document (the value the cache holds)
PV(d) == [doc |-> d, class |-> Docs[d].class]

\* ---- operation selection (GetOperation)
OpIdsOf(ns) == {i \in 1..Len(ns) : ns[i].k = "OP"}
SelectOp(ns, name) ==
  IF name = "" THEN (IF Cardinality(OpIdsOf(ns)) = 1 THEN CHOOSE i \in OpIdsOf(ns) : TRUE ELSE 0)
  ELSE IF \E i \in OpIdsOf(ns) : ns[i].name = name THEN CHOOSE i \in OpIdsOf(ns) : ns[i].name = name
  ELSE 0

\* ---- variable presence (the full coercion rules are InputCoercion.tla's)
VarsOk(ns, op, given) ==
  \A i \in 1..Len(ns[op].vdefs) :
     LET vd == ns[op].vdefs[i] IN
     /\ IsNN(vd.type) => (vd.name \in DOMAIN given /\ ~IsNull(given[vd.name])) \/ vd.hasDefault
     \* an enum-typed variable carries the name of one of the enum's values
     /\ (vd.name \in DOMAIN given /\ ~IsNull(given[vd.name]) /\ Len(vd.type) = 1 /\ KindOf(vd.type[1]) = "ENUM")
           => (given[vd.name].t = "S" /\ given[vd.name].v \in SeqToSet(Types[vd.type[1]].values))
CoercedGiven(ns, op, given) ==
  LET names == {ns[op].vdefs[i].name : i \in 1..Len(ns[op].vdefs)}
      def(x) == CHOOSE i \in 1..Len(ns[op].vdefs) : ns[op].vdefs[i].name = x
      has == {x \in names : x \in DOMAIN given \/ ns[op].vdefs[def(x)].hasDefault} IN
  [x \in has |-> IF x \in DOMAIN given THEN given[x] ELSE LitValue([vars |-> <<>>], ns[op].vdefs[def(x)].default)]

ErrResp(cls) == [cls |-> cls, data |-> Null, errs |-> {}, nulls |-> {}, calls |-> <<>>]

\* the response to request r when parsing/validation yielded pv
RespWith(pv, r) ==
  IF pv.class = "broken" THEN ErrResp("syntax")
  ELSE IF pv.class = "invalid" THEN ErrResp("validation")
  ELSE LET ns == Docs[pv.doc].nodes
           op == SelectOp(ns, r.opName) IN
       IF op = 0 THEN ErrResp("opselect")
       ELSE IF ~VarsOk(ns, op, r.given) THEN ErrResp("varcoerce")
       \* (a request may carry resolver data of its own: `overlay`, e.g. a resolver answering null for a non-null field)
       ELSE LET b == BigStep([nodes |-> ns, op |-> op, vars |-> CoercedGiven(ns, op, r.given),
                              overlay |-> IF "overlay" \in DOMAIN r THEN r.overlay ELSE <<>>]) IN
            [cls |-> "exec", data |-> b.data, errs |-> b.errs, nulls |-> b.nulls, calls |-> b.calls]

Solo(r) == RespWith(PV(r.doc), r)

\* ---- the cache: sequence of [key, val], least recently used first
VARIABLES cache, log
evars == <<cache, log>>

KeyOf(r) == <<r.doc, r.spelling>>
CacheIdx(k) == LET S == {i \in 1..Len(cache) : cache[i].key = k} IN IF S = {} THEN 0 ELSE CHOOSE i \in S : TRUE
Without(sq, i) == [j \in 1..(Len(sq) - 1) |-> IF j < i THEN sq[j] ELSE sq[j + 1]]

InitE == cache = <<>> /\ log = <<>>

Request(r) ==
  /\ Len(log) < MaxLen
  /\ LET k == KeyOf(r)
         i == CacheIdx(k) IN
     IF Capacity = 0 THEN
        /\ cache' = cache
        /\ log' = Append(log, [req |-> r, hit |-> FALSE, evicted |-> FALSE, resp |-> RespWith(PV(r.doc), r)])
     ELSE IF i # 0 THEN        \* hit: use the cached value, refresh recency
        /\ cache' = Append(Without(cache, i), cache[i])
        /\ log' = Append(log, [req |-> r, hit |-> TRUE, evicted |-> FALSE, resp |-> RespWith(cache[i].val, r)])
     ELSE                       \* miss: parse + validate, insert, evict the least recently used
        LET ins == Append(cache, [key |-> k, val |-> PV(r.doc)])
            ev  == Len(ins) > Capacity IN
        /\ cache' = IF ev THEN Tail(ins) ELSE ins
        /\ log' = Append(log, [req |-> r, hit |-> FALSE, evicted |-> ev, resp |-> RespWith(PV(r.doc), r)])

NextE == \E r \in ReqPool : Request(r)
SpecE == InitE /\ [][NextE]_evars

\* ---- R1
Coherent == \A i \in 1..Len(cache) : cache[i].val = PV(cache[i].key[1])
Bounded == Capacity = 0 \/ Len(cache) <= Capacity
NoDupKeys == \A i, j \in 1..Len(cache) : i # j => cache[i].key # cache[j].key
Transparent == \A i \in 1..Len(log) : log[i].resp = Solo(log[i].req)
\* errors-only classes answer data null and run nothing (C18)
ErrorClassesRunNothing == \A i \in 1..Len(log) :
   log[i].resp.cls # "exec" => IsNull(log[i].resp.data) /\ log[i].resp.calls = <<>>
=============================================================================
