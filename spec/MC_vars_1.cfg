SPECIFICATION Spec
CONSTANTS
  MODE = "vars"
  TLO = 17
  THI = 32
INVARIANT R1_Vars
INVARIANT EmitVars
CHECK_DEADLOCK FALSE
