SPECIFICATION Spec
CONSTANTS
  MODE = "vars"
  TLO = 61
  THI = 99
INVARIANT R1_Vars
INVARIANT EmitVars
CHECK_DEADLOCK FALSE
