SPECIFICATION SpecSub
CONSTANTS
  Types <- TypesExec
  Roots <- RootsExec
  MaxSel = 2
  MaxDepth = 3
  MaxFrags = 0
  MaxOps = 1
  OpTypes = {"subscription"}
  FieldAlpha <- AlphaSub3
  Aliases = {""}
  Conds = {""}
  DirOpts <- NoDirs
  ArgOpts <- ArgOptsSub3
  VarTypes <- VarTypesStd
  VarVals <- VarValsSmall
  MaxOverlay = 0
  TRSets <- NoTR
  FalsyOverlays = FALSE
  MaxFaults = 1
  MaxEvents = 3
  EventKinds <- EvKinds2
  AllowRefused = FALSE
INVARIANT R1_Sub
INVARIANT EmitSub
PROPERTY SubProgress
CHECK_DEADLOCK FALSE
