SPECIFICATION SpecV
CONSTANTS
  Types <- TypesExec
  Roots <- RootsExec
  MaxSel = 3
  MaxDepth = 3
  MaxFrags = 0
  MaxOps = 1
  OpTypes = {"query"}
  FieldAlpha <- AlphaV2
  Aliases = {""}
  Conds = {"", "A"}
  DirOpts <- DirsV
  ArgOpts <- ArgOptsV
  VarTypes <- VarTypesV
  VarVals <- VarValsV
INVARIANT R1_SeedsValid
INVARIANT R1_RewritesInvalid
INVARIANT EmitV
CHECK_DEADLOCK FALSE
