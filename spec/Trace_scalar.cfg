SPECIFICATION Spec
INVARIANT Judge
CHECK_DEADLOCK FALSE
