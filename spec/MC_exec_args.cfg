SPECIFICATION Spec
CONSTANTS
  Types <- TypesExec
  Roots <- RootsExec
  MaxSel = 3
  MaxDepth = 3
  MaxFrags = 0
  MaxOps = 1
  OpTypes = {"query"}
  FieldAlpha <- AlphaArgs
  Aliases = {"", "z"}
  Conds = {""}
  DirOpts <- NoDirs
  ArgOpts <- ArgOptsStd
  VarTypes <- VarTypesStd
  VarVals <- VarValsStd
  MaxOverlay = 0
  TRSets <- NoTR
  FalsyOverlays = FALSE
INVARIANT R1_Exec
INVARIANT Emit
CHECK_DEADLOCK FALSE
