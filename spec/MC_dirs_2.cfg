SPECIFICATION Spec
CONSTANTS MaxSum = 2
INVARIANT R1_Dirs
INVARIANT Emit
CHECK_DEADLOCK FALSE
