------------------------------- MODULE SExec --------------------------------
(* The covering execution schema S_exec: objects, an interface with two
   implementers, a union overlapping it, an enum, every list / non-null layout used
   by the null-propagation analysis, fields with arguments and defaults, a
   default-resolved field, a Mutation and a Subscription root.
   `way` says how values of an object type name their runtime type:
     "key"   dict with a "_typename" key          (also: default resolver by key)
     "attr"  object with a `_typename` attribute  (also: default resolver by attribute)
     "class" instance of a class named like the type                                  *)
EXTENDS Naturals, Sequences

Nm(n) == <<n>>
Nn(t) == <<"NN">> \o t
Li(t) == <<"L">> \o t

Ag(n, t)      == [name |-> n, type |-> t, hasDefault |-> FALSE, default |-> [t |-> "null", v |-> 0]]
AgD(n, t, d)  == [name |-> n, type |-> t, hasDefault |-> TRUE, default |-> d]
Rs(t)         == [type |-> t, args |-> <<>>, res |-> "R"]      \* custom resolver
Df(t)         == [type |-> t, args |-> <<>>, res |-> "D"]      \* default resolver
RsA(t, args)  == [type |-> t, args |-> args, res |-> "R"]

HArgs == << Ag("i", Nm("In")) >>
InFields == << Ag("r", Nn(Nm("Int"))), Ag("l", Li(Nm("Int"))), Ag("n", Nm("In")), Ag("e", Nm("E")), Ag("ln", Li(Nn(Nm("Int")))),
              \* an input field guarded by a directive whose on_post_input_coercion hook raises (a plain exception) for the value 13
              [name |-> "q", type |-> Nm("Int"), hasDefault |-> FALSE, default |-> [t |-> "null", v |-> 0], dirs |-> <<[name |-> "boomi", args |-> <<>>]>>] >>
FArgs == << Ag("a", Nm("Int")), AgD("b", Nm("String"), [t |-> "str", v |-> "d"]) >>
GArgs == << Ag("r", Nn(Nm("Int"))) >>
ZArgs == << Ag("a", Nm("Sz")) >>
\* the guarded argument with a DEFAULT the guard refuses: omitting the argument fails the field
Gd2Args == << [name |-> "a", type |-> Nm("Int"), hasDefault |-> TRUE, default |-> [t |-> "int", v |-> 13], dirs |-> <<[name |-> "boom", args |-> <<>>]>>] >>
\* an argument guarded by a directive whose on_argument_execution hook raises (a plain Python exception) for the value 13
GdArgs == << [name |-> "a", type |-> Nm("Int"), hasDefault |-> FALSE, default |-> [t |-> "null", v |-> 0], dirs |-> <<[name |-> "boom", args |-> <<>>]>>],
             AgD("b", Nm("String"), [t |-> "str", v |-> "d"]) >>

NoFields == [x \in {} |-> 0]
Leafish(k) == [kind |-> k, fields |-> NoFields, possible |-> {}, possibleSeq |-> <<>>, values |-> <<>>, way |-> ""]

TFields == [ csn |-> Rs(Nn(Nm("Cs"))), s |-> Rs(Nm("String")), sn |-> Rs(Nn(Nm("String"))), i |-> Rs(Nm("Int")), d |-> Df(Nm("String")),
             o |-> Rs(Nm("T")), on |-> Rs(Nn(Nm("T"))), lo |-> Rs(Li(Nm("T"))), lnn |-> Rs(Li(Nn(Nm("T")))),
             p |-> Rs(Nm("P")), e |-> Rs(Nm("E")), f |-> RsA(Nm("String"), FArgs), g |-> RsA(Nm("String"), GArgs), h |-> RsA(Nm("String"), HArgs) ]

PFields == [ s |-> Rs(Nm("String")), o |-> Rs(Nm("T")), p |-> Rs(Nm("P")) ]

TypesExec == [
  Query |-> [kind |-> "OBJECT", possible |-> {"Query"}, possibleSeq |-> <<"Query">>, values |-> <<>>, way |-> "key",
    fields |-> [ o |-> Rs(Nm("T")), on |-> Rs(Nn(Nm("T"))), lo |-> Rs(Li(Nm("T"))), lnn |-> Rs(Li(Nn(Nm("T")))),
                 nl |-> Rs(Nn(Li(Nm("T")))), nlnn |-> Rs(Nn(Li(Nn(Nm("T"))))), ll |-> Rs(Li(Li(Nn(Nm("T"))))), lln |-> Rs(Li(Nn(Li(Nm("T"))))),
                 a |-> Rs(Nm("A")), p |-> Rs(Nm("P")), np |-> Rs(Nn(Nm("P"))), lp |-> Rs(Li(Nm("P"))), lnp |-> Rs(Nn(Li(Nn(Nm("P"))))), u |-> Rs(Nm("U")), lu |-> Rs(Li(Nn(Nm("U")))),
                 s |-> Rs(Nm("String")), sn |-> Rs(Nn(Nm("String"))), i |-> Rs(Nm("Int")), e |-> Rs(Nm("E")),
                 le |-> Rs(Li(Nm("E"))), ls |-> Rs(Li(Nn(Nm("String")))), fl |-> Rs(Nm("Float")), lfl |-> Rs(Li(Nn(Nm("Float")))), idf |-> Rs(Nm("ID")), bo |-> Rs(Nm("Boolean")),
                 f |-> RsA(Nm("String"), FArgs), g |-> RsA(Nm("String"), GArgs), h |-> RsA(Nm("String"), HArgs),
                 fz |-> RsA(Nm("String"), ZArgs), gd |-> RsA(Nm("String"), GdArgs), gd2 |-> RsA(Nm("String"), Gd2Args),
                 cs |-> RsA(Nm("Cs"), << Ag("a", Nm("Cs")) >>), csn |-> Rs(Nn(Nm("Cs"))), lcs |-> Rs(Li(Nn(Nm("Cs")))) ]],
  T |-> [kind |-> "OBJECT", possible |-> {"T"}, possibleSeq |-> <<"T">>, values |-> <<>>, way |-> "key", fields |-> TFields],
  P |-> [kind |-> "INTERFACE", possible |-> {"A", "B"}, possibleSeq |-> <<"A", "B">>, values |-> <<>>, way |-> "", fields |-> PFields],
  A |-> [kind |-> "OBJECT", possible |-> {"A"}, possibleSeq |-> <<"A">>, values |-> <<>>, way |-> "key",
    fields |-> [ s |-> Rs(Nm("String")), o |-> Rs(Nm("T")), p |-> Rs(Nm("P")), a |-> Rs(Nm("String")), an |-> Rs(Nn(Nm("String"))) ]],
  B |-> [kind |-> "OBJECT", possible |-> {"B"}, possibleSeq |-> <<"B">>, values |-> <<>>, way |-> "attr",
    fields |-> [ s |-> Rs(Nm("String")), o |-> Rs(Nm("T")), p |-> Rs(Nm("P")), b |-> Rs(Nm("String")), d |-> Df(Nm("String")) ]],
  C |-> [kind |-> "OBJECT", possible |-> {"C"}, possibleSeq |-> <<"C">>, values |-> <<>>, way |-> "class",
    fields |-> [ s |-> Rs(Nm("String")), c |-> Rs(Nm("String")) ]],
  U |-> [kind |-> "UNION", possible |-> {"A", "C"}, possibleSeq |-> <<"A", "C">>, values |-> <<>>, way |-> "", fields |-> NoFields],
  \* a union sharing no object type with the interface P (an abstract type spread inside a disjoint abstract type is impossible)
  V |-> [kind |-> "UNION", possible |-> {"C"}, possibleSeq |-> <<"C">>, values |-> <<>>, way |-> "", fields |-> NoFields],
  E |-> [kind |-> "ENUM", possible |-> {}, possibleSeq |-> <<>>, values |-> <<"X", "Y">>, way |-> "", fields |-> NoFields],
  \* an enum with look-alike value names (a misspelt value has several close matches)
  Sz |-> [kind |-> "ENUM", possible |-> {}, possibleSeq |-> <<>>, values |-> <<"LARGE", "XLARGE", "XXLARGE", "XLARGER">>, way |-> "", fields |-> NoFields],
  Mutation |-> [kind |-> "OBJECT", possible |-> {"Mutation"}, possibleSeq |-> <<"Mutation">>, values |-> <<>>, way |-> "key",
    fields |-> [ m1 |-> Rs(Nm("T")), m2 |-> Rs(Nn(Nm("T"))), m3 |-> Rs(Nm("String")), m4 |-> Rs(Nn(Nm("String"))), ml |-> Rs(Li(Nm("T"))),
                 mg |-> RsA(Nm("String"), GArgs), mgn |-> RsA(Nn(Nm("String")), GArgs), mcs |-> Rs(Nn(Nm("Cs"))),
                 mln |-> Rs(Nn(Li(Nn(Nm("T"))))) ]],
  Subscription |-> [kind |-> "OBJECT", possible |-> {"Subscription"}, possibleSeq |-> <<"Subscription">>, values |-> <<>>, way |-> "key",
    fields |-> [ ev |-> RsA(Nm("T"), FArgs), evs |-> Rs(Nm("String")), evn |-> Rs(Nn(Nm("T"))) ]],
  In |-> [kind |-> "INPUT", fields |-> NoFields, possible |-> {}, possibleSeq |-> <<>>, values |-> <<>>, way |-> "", inputs |-> InFields],
  String  |-> Leafish("SCALAR"),
  Int     |-> Leafish("SCALAR"),
  Boolean |-> Leafish("SCALAR"),
  ID      |-> Leafish("SCALAR"),
  Float   |-> Leafish("SCALAR"),
  \* a custom scalar whose output coercion turns the blank string into null and prefixes every other text with "cs:" (GQL!OutC)
  Cs      |-> Leafish("SCALAR") ]

RootsExec == [query |-> "Query", mutation |-> "Mutation", subscription |-> "Subscription"]
=============================================================================
