SPECIFICATION Spec
CONSTANTS
  MODE = "ways"
  TLO = 33
  THI = 44
INVARIANT R1_Ways
INVARIANT EmitWays
CHECK_DEADLOCK FALSE
