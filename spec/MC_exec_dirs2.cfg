SPECIFICATION Spec
CONSTANTS
  Types <- TypesExec
  Roots <- RootsExec
  MaxSel = 4
  MaxDepth = 3
  MaxFrags = 0
  MaxOps = 1
  OpTypes = {"query"}
  FieldAlpha <- AlphaDirs2
  Aliases = {""}
  Conds = {""}
  DirOpts <- DirsMix
  ArgOpts <- ArgOptsNone
  VarTypes <- VarTypesStd
  VarVals <- VarValsStd
  MaxOverlay = 0
  TRSets <- NoTR
  FalsyOverlays = FALSE
INVARIANT R1_Exec
INVARIANT Emit
CHECK_DEADLOCK FALSE
