---------------------------- MODULE Subscription ----------------------------
(* The subscription stream (C14).  A subscription request has a finite source
   sequence E of events; event k is the payload with identity "E<k>" together with the
   resolver data (overlay) used when the selection is executed against it.
   `subscribe` is pulled by its consumer: the state is
       produced  number of events the source has made available
       pulled    number of pulls the consumer has issued
       ended     the source has signalled its end
   and what is delivered is a deterministic consequence at each idle point:
       delivered = min(pulled, produced)          one response per event, in order
       finished  = ended /\ pulled > produced      the stream ends when the source ends
   A request refused before execution (validation, variable coercion) answers one
   errors-only response to the first pull, ends at the second, never starts the source. *)
EXTENDS Naturals, Sequences

VARIABLES produced, pulled, ended
subvars == <<produced, pulled, ended>>

Min(a, b) == IF a <= b THEN a ELSE b
Delivered(refused) == IF refused THEN Min(pulled, 1) ELSE Min(pulled, produced)
Finished(refused)  == IF refused THEN pulled > 1 ELSE ended /\ pulled > produced
Outstanding(refused) == pulled > Delivered(refused) /\ ~Finished(refused)

SubInit == produced = 0 /\ pulled = 0 /\ ended = FALSE
Produce(n) == produced < n /\ ~ended /\ produced' = produced + 1 /\ UNCHANGED <<pulled, ended>>
EndSource(n) == produced = n /\ ~ended /\ ended' = TRUE /\ UNCHANGED <<produced, pulled>>
Pull(refused) == ~Outstanding(refused) /\ ~Finished(refused) /\ pulled' = pulled + 1 /\ UNCHANGED <<produced, ended>>
=============================================================================
