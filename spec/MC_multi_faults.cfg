SPECIFICATION SpecM
CONSTANTS
  Types <- TypesExec
  Roots <- RootsExec
  MaxSel = 2
  MaxDepth = 3
  MaxFrags = 0
  MaxOps = 1
  OpTypes = {"query"}
  FieldAlpha <- AlphaMultiF
  Aliases = {""}
  Conds = {""}
  DirOpts <- NoDirs
  ArgOpts <- ArgOptsNone
  VarTypes <- VarTypesStd
  VarVals <- VarValsStd
  MaxOverlay = 0
  TRSets <- NoTR
  FalsyOverlays = FALSE
  MaxFaults = 1
  SeqFields <- SomeFieldNames
  LConc = FALSE
  NReq = 2
  OverlayKinds <- OKinds
INVARIANT R1_Multi
INVARIANT EmitM
CHECK_DEADLOCK FALSE
