SPECIFICATION Spec
CONSTANTS
  Types <- TypesExec2
  Roots <- RootsExec2
  MaxSel = 3
  MaxDepth = 3
  MaxFrags = 0
  MaxOps = 1
  OpTypes = {"query"}
  FieldAlpha <- AlphaS2G
  Aliases = {"", "z"}
  Conds = {"", "Leaf"}
  DirOpts <- NoDirs
  ArgOpts <- ArgOptsS2
  VarTypes <- VarTypesS2
  VarVals <- VarValsS2
  MaxOverlay = 1
  TRSets <- NoTR
  FalsyOverlays = FALSE
INVARIANT R1_Exec
INVARIANT Emit
CHECK_DEADLOCK FALSE
