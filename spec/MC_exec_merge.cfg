SPECIFICATION Spec
CONSTANTS
  Types <- TypesExec
  Roots <- RootsExec
  MaxSel = 6
  MaxDepth = 4
  MaxFrags = 0
  MaxOps = 1
  OpTypes = {"query"}
  FieldAlpha <- AlphaMerge
  Aliases = {""}
  Conds = {"A", "B"}
  DirOpts <- NoDirs
  ArgOpts <- ArgOptsNone
  VarTypes <- VarTypesStd
  VarVals <- VarValsStd
  MaxOverlay = 0
  TRSets <- NoTR
  FalsyOverlays = FALSE
INVARIANT R1_Exec
INVARIANT Emit
CHECK_DEADLOCK FALSE
