SPECIFICATION SpecE
CONSTANTS
  Types <- TypesExec
  Roots <- RootsExec
  Docs <- DocsStd
  ReqPool <- PoolHist
  Capacity = 0
  MaxLen = 4
INVARIANT Coherent
INVARIANT Bounded
INVARIANT NoDupKeys
INVARIANT Transparent
INVARIANT ErrorClassesRunNothing
INVARIANT EmitE
CHECK_DEADLOCK FALSE
