SPECIFICATION RSpec
CONSTANTS N = 3
INVARIANT Independent
INVARIANT NoLeak
INVARIANT EmitR
CHECK_DEADLOCK FALSE
