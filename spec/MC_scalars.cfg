SPECIFICATION Spec
INVARIANT LawsHold
INVARIANT Emit
CHECK_DEADLOCK FALSE
