SPECIFICATION Spec
CONSTANTS
  MODE = "ways"
  TLO = 1
  THI = 16
INVARIANT R1_Ways
INVARIANT EmitWays
CHECK_DEADLOCK FALSE
