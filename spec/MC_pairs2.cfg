SPECIFICATION Spec
CONSTANTS
  MODE = "pairs2"
  TLO = 1
  THI = 1
INVARIANT R1_Pairs
INVARIANT EmitPairs
CHECK_DEADLOCK FALSE
