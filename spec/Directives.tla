------------------------------ MODULE Directives -----------------------------
(* Directive hook chains (C13).  A tagging directive instance @t<loc>(n: k) leaves the mark
   "<" hook-letter loc-letter k ">" on every string value that passes through one of its
   hooks, so the order in which hooks nest and stages compose is visible in the value a
   resolver receives and in the response:

     input hooks (on_post_input_coercion) and output hooks (on_pre_output_coercion) mark the
     value on the way IN  (first declared = outermost = marks first),
     field hooks (on_field_execution) mark the resolver's result on the way OUT (first
     declared = outermost = marks last; query-side directives wrap schema-side ones).

   Stage order:  input value -> scalar/enum type input hooks -> input-field hooks ->
   input-object hooks -> argument hooks -> field hooks -> resolver -> output type hooks ->
   serialisation.  Locations: s scalar, e enum, v enum value, io input object, if input
   field, a argument, f field definition, q query field, o object type.
   A configuration gives the number of tagging instances (0..2) at each location.        *)
EXTENDS Naturals, Sequences, FiniteSets, TLC

Locs == <<"s", "e", "v", "io", "if", "a", "f", "q", "o">>
Mark(h, loc, k) == "<" \o h \o loc \o ToString(k) \o ">"
RECURSIVE Marks(_, _, _, _)
\* marks of instances from..n of location loc, in declaration order
Marks(h, loc, from, n) == IF from > n THEN "" ELSE Mark(h, loc, from) \o Marks(h, loc, from + 1, n)
RECURSIVE MarksRev(_, _, _)
MarksRev(h, loc, n) == IF n = 0 THEN "" ELSE Mark(h, loc, n) \o MarksRev(h, loc, n - 1)

\* how the value of the scalar reaches the engine
Base(way) == IF way \in {"lit", "objlit"} THEN "lit(v)" ELSE "in(v)"

\* ---- predicted strings --------------------------------------------------------------------
\* argument of scalar type Sx seen by the resolver (request kinds: "lit" | "var")
ArgScalar(c, way) == Base(way) \o Marks("i", "s", 1, c.s) \o Marks("a", "a", 1, c.a)
\* field f of input object In seen by the resolver ("objlit" | "objvar" | "objnested")
ArgObjField(c, way) == Base(way) \o Marks("i", "s", 1, c.s) \o Marks("i", "if", 1, c["if"])
\* the field's final value: resolver result -> schema-side field hooks (inner) -> query-side field hooks (outer)
\* -> output hooks of the scalar -> serialisation
Final(c, res) == "out(" \o res \o MarksRev("f", "f", c.f) \o MarksRev("f", "q", c.q) \o Marks("o", "s", 1, c.s) \o ")"

\* ---- predicted hook log: set of [hook, loc, k] - each exactly once ------------------------------
Inst(hook, loc, n) == {[hook |-> hook, loc |-> loc, k |-> k] : k \in 1..n}
FieldLog(c) == Inst("field", "f", c.f) \cup Inst("field", "q", c.q)
Log(c, kind) ==
  IF kind \in {"lit", "var"} THEN Inst("in", "s", c.s) \cup Inst("arg", "a", c.a) \cup FieldLog(c) \cup Inst("out", "s", c.s)
  ELSE IF kind \in {"enumlit", "enumvar"} THEN
       Inst("in", "v", c.v) \cup Inst("in", "e", c.e) \cup Inst("arg", "a", c.a) \cup FieldLog(c) \cup Inst("out", "e", c.e) \cup Inst("out", "v", c.v)
  ELSE IF kind \in {"objlit", "objvar", "objnested"} THEN
       Inst("in", "s", c.s) \cup Inst("in", "if", c["if"]) \cup Inst("in", "io", c.io) \cup Inst("arg", "a", c.a) \cup FieldLog(c) \cup Inst("out", "s", c.s)
  ELSE \* "object": { o { s } } - output hooks of the object type and of the scalar
       Inst("out", "o", c.o) \cup Inst("out", "s", c.s)

Kinds == {"lit", "var", "enumlit", "enumvar", "objlit", "objvar", "objnested", "object"}

\* merged field nodes: in  items { n @tq ... on B { n @tr } }  the query-side directives of ALL nodes merged under
\* the response key wrap the field - one node for an A item, two for a B item (first node's directive outermost)
MergedExpected(c) ==
  [itemA |-> "out(r(a)" \o Marks("o", "o", 1, c.o) \o MarksRev("f", "f", c.f) \o MarksRev("f", "q", IF c.q >= 1 THEN 1 ELSE 0) \o Marks("o", "s", 1, c.s) \o ")",
   itemB |-> "out(r(b)" \o Marks("o", "o", 1, c.o) \o MarksRev("f", "f", c.f) \o MarksRev("f", "q", c.q) \o Marks("o", "s", 1, c.s) \o ")"]
Expected(c, kind) ==
  [arg |-> IF kind \in {"lit", "var"} THEN ArgScalar(c, kind)
           ELSE IF kind \in {"objlit", "objvar", "objnested"} THEN ArgObjField(c, kind)
           ELSE IF kind \in {"enumlit", "enumvar"} THEN "X" ELSE "",
   data |-> IF kind \in {"lit", "var"} THEN Final(c, ArgScalar(c, kind))
            ELSE IF kind \in {"objlit", "objvar", "objnested"} THEN Final(c, ArgObjField(c, kind))
            ELSE IF kind \in {"enumlit", "enumvar"} THEN "X"
            ELSE "out(r(v)" \o Marks("o", "o", 1, c.o) \o Marks("o", "s", 1, c.s) \o ")",   \* the object type's output hooks return a marked copy
   log |-> Log(c, kind)]

\* ---- R1 ------------------------------------------------------------------------------------
\* literal and variable spellings run the same hooks
SameHooksLitVar(c) == Log(c, "lit") = Log(c, "var") /\ Log(c, "enumlit") = Log(c, "enumvar") /\ Log(c, "objlit") = Log(c, "objvar") /\ Log(c, "objlit") = Log(c, "objnested")
\* every instance appears exactly once: the log is a set of distinct instances whose size is the number of governing instances
CountOK(c) ==
  /\ Cardinality(Log(c, "lit")) = 2 * c.s + c.a + c.f + c.q
  /\ Cardinality(Log(c, "objlit")) = 2 * c.s + c["if"] + c.io + c.a + c.f + c.q
  /\ Cardinality(Log(c, "enumlit")) = 2 * c.v + 2 * c.e + c.a + c.f + c.q
=============================================================================
