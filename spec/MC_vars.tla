------------------------------- MODULE MC_vars -------------------------------
(* R1 + R2 configuration for C04 (variable coercion) and C05 (argument coercion,
   literal = variable = default).  Cells are enumerated type-directed: for every
   declared type of TypeList, every candidate value "one mutation away" from a
   well-typed one at every position (right, wrong and borderline kinds, null, absent,
   unknown / missing input fields, single values for lists).                         *)
EXTENDS InputCoercion, Json

CONSTANTS MODE,     \* "vars" | "ways"
          TLO, THI  \* range of type indices handled by this run (splits the work over processes)

Wrappers(n) == << Nm(n), Nn(Nm(n)), Li(Nm(n)), Li(Nn(Nm(n))), Nn(Li(Nm(n))), Nn(Li(Nn(Nm(n)))), Li(Li(Nm(n))), Nn(Li(Nn(Li(Nn(Nm(n)))))) >>
NamedList == <<"Int", "Float", "String", "Boolean", "ID", "E", "In1", "In2">>
RECURSIVE Concat(_)
Concat(ss) == IF ss = <<>> THEN <<>> ELSE Head(ss) \o Concat(Tail(ss))
TypeList == Concat([i \in 1..Len(NamedList) |-> Wrappers(NamedList[i])]) \o << Li(Li(Li(Nm("Int")))), Li(Nn(Li(Li(Nn(Nm("E")))))) >>

LeafToks == {"iS", "iOVER", "fFRAC", "sTXT", "sS", "bT", "eX", "eZ", "iZERO", "bF", "sEMPTY", "iMIN", "iMAX"}
ASSUME \A s \in ScalarNames, t \in LeafToks : Cardinality(In(s, AsScalarTok(t))) = 1

\* a canonical well-typed value / literal of each type
GoodLeaf(n) == IF n = "Int" THEN "iS" ELSE IF n = "Float" THEN "fFRAC" ELSE IF n = "String" THEN "sTXT" ELSE IF n = "Boolean" THEN "bT"
               ELSE IF n = "ID" THEN "sS" ELSE "eX"
RECURSIVE Good(_)
Good(t) ==
  IF INN(t) THEN Good(Tail(t))
  ELSE IF IList(t) THEN Lst(<<Good(Tail(t))>>)
  ELSE IF INamed(t) = "In1" THEN Obj(<< <<"r", K("iS")>> >>)
  ELSE IF INamed(t) = "In2" THEN Obj(<< <<"e", K("eY")>> >>)
  ELSE K(GoodLeaf(INamed(t)))

\* candidate JSON values for type t
RECURSIVE Cands(_)
ObjCands(n) ==
  IF n = "In1" THEN
     {Obj(<< <<"r", c>> >>) : c \in Cands(Nn(Nm("Int")))}
     \cup {Obj(<< <<"r", K("iS")>>, <<"x", c>> >>) : c \in {Null, K("iS"), K("sTXT")}}
     \cup {Obj(<< <<"y", c>>, <<"r", K("iS")>> >>) : c \in {Null, K("iS"), Lst(<<K("iS"), Null>>), Lst(<<>>)}}
     \cup {Obj(<<>>), Obj(<< <<"r", K("iS")>>, <<"zz", K("iS")>> >>), Obj(<< <<"x", K("iS")>> >>),
           Obj(<< <<"r", K("iS")>>, <<"k", Null>> >>), Obj(<< <<"r", K("iS")>>, <<"k", K("iS")>> >>)}
  ELSE
     {Obj(<< <<"e", c>> >>) : c \in {K("eX"), K("eZ"), Null, K("iS")}}
     \cup {Obj(<<>>), Obj(<< <<"n", Obj(<< <<"s", Null>> >>)>> >>), Obj(<< <<"n", Obj(<< <<"n", Null>>, <<"e", K("eZ")>> >>)>> >>),
           Obj(<< <<"s", K("iS")>> >>), Obj(<< <<"n", K("sTXT")>> >>), Obj(<< <<"q", Null>> >>)}
Cands(t) ==
  IF INN(t) THEN Cands(Tail(t)) \cup {Null}
  ELSE IF IList(t) THEN
     LET it == Tail(t)
         g == Good(it)
         cs == Cands(it) IN
     {Null, Lst(<<>>)} \cup cs \cup {Lst(<<c>>) : c \in cs} \cup {Lst(<<g, c>>) : c \in cs} \cup {Lst(<<c, g>>) : c \in cs}
  ELSE LET n == INamed(t) IN
     IF IsInputObj(n) THEN ObjCands(n) \cup {Null, K("iS"), Lst(<<>>)}
     ELSE {K(x) : x \in LeafToks} \cup {Null, Lst(<<>>), Obj(<<>>)}

\* the literal that spells a JSON value at a position of type t (enum names are EnumValue literals there)
RECURSIVE LitFor(_, _)
LeafLitFor(n, tok) ==
  IF tok \in EnumToks THEN (IF n = "E" THEN [t |-> "enum", v |-> tok] ELSE [t |-> "str", v |-> tok])
  ELSE IF tok \in IntToks THEN [t |-> "int", v |-> tok]
  ELSE IF tok \in FloatToks THEN [t |-> "float", v |-> tok]
  ELSE IF tok \in BoolToks THEN [t |-> "bool", v |-> tok]
  ELSE [t |-> "str", v |-> tok]
LitFor(t, v) ==
  IF IsNull(v) THEN NoLit
  ELSE IF INN(t) THEN LitFor(Tail(t), v)
  ELSE IF v.t = "L" THEN [t |-> "list", v |-> [i \in 1..Len(v.v) |-> LitFor(IF IList(t) THEN Tail(t) ELSE t, v.v[i])]]
  ELSE IF v.t = "O" THEN
     LET n == INamed(t)
         ft(key) == IF IsInputObj(n) /\ key \in FieldNamesOf(n) THEN InputObjs[n][CHOOSE i \in 1..Len(InputObjs[n]) : InputObjs[n][i].name = key].type ELSE Nm("Int") IN
     [t |-> "obj", v |-> [i \in 1..Len(v.v) |-> <<v.v[i][1], LitFor(ft(v.v[i][1]), v.v[i][2])>>]]
  ELSE IF IList(t) THEN LitFor(Tail(t), v)
  ELSE LeafLitFor(INamed(t), v.v)

VARIABLE cell
PairA == {Absent, Null, K("iS"), K("sTXT"), K("fFRAC")}
PairB == {Absent, Null, K("eX"), K("eZ"), Lst(<<K("eX"), Null>>), Lst(<<K("eY")>>), K("iS")}
Cells == IF MODE \in {"pairs", "pairs2"} THEN {[ti |-> 2, hasDefault |-> FALSE, present |-> TRUE, v |-> Null, va |-> a, vb |-> b] : a \in PairA, b \in PairB}
         ELSE IF MODE = "vars"
         THEN UNION {{[ti |-> i, hasDefault |-> d, present |-> p, v |-> v] : d \in BOOLEAN, p \in BOOLEAN, v \in Cands(TypeList[i])} : i \in TLO..(IF THI > Len(TypeList) THEN Len(TypeList) ELSE THI)}
         ELSE UNION {{[ti |-> i, hasDefault |-> FALSE, present |-> TRUE, v |-> v] : v \in Cands(TypeList[i])} : i \in TLO..(IF THI > Len(TypeList) THEN Len(TypeList) ELSE THI)}
Spec == cell \in Cells /\ [][UNCHANGED cell]_cell
T == TypeList[cell.ti]
Relevant == cell.v \in Cands(T) /\ (cell.present \/ cell.v = Null)

VDef == [name |-> "a", type |-> T, hasDefault |-> cell.hasDefault, default |-> LitFor(T, Good(T))]
Given == IF cell.present THEN [a |-> cell.v, zz |-> K("iS")] ELSE [zz |-> K("iS")]       \* an undeclared variable is always sent along
ArgDefA == IField("a", T, FALSE, NoLit)
VarRes == CoerceVars(<<VDef>>, Given)
ArgsVar == CoerceArgsFull(<<ArgDefA>>, <<[name |-> "a", val |-> [t |-> "var", v |-> "a"]]>>, VarRes.values)

\* ---- R1 (C04) -------------------------------------------------------------------------------
NoExtra == [x \in DOMAIN Given \ {"zz"} |-> Given[x]]
R1_Vars == Relevant =>
  /\ CoerceVars(<<VDef>>, Given) = CoerceVars(<<VDef>>, NoExtra)                       \* undeclared variables are ignored
  /\ "zz" \notin DOMAIN VarRes.values
  /\ (~cell.present /\ cell.hasDefault => ~VarRes.refused /\ VarRes.values["a"] = CoerceLit(T, VDef.default, <<>>).v)   \* absent + default = default
  /\ (~cell.present /\ ~cell.hasDefault /\ ~INN(T) => ~VarRes.refused /\ "a" \notin DOMAIN VarRes.values)               \* omitted stays absent
  /\ (cell.present /\ IsNull(cell.v) /\ ~INN(T) => ~VarRes.refused /\ IsNull(VarRes.values["a"]))                       \* explicit null is kept
  /\ (cell.present /\ IsNull(cell.v) /\ INN(T) => VarRes.refused)
  /\ (~cell.present /\ ~cell.hasDefault /\ INN(T) => VarRes.refused)
  /\ (VarRes.refused <=> VarRes.offending = {"a"})
  /\ (~VarRes.refused /\ "a" \in DOMAIN VarRes.values => WellTyped(T, VarRes.values["a"]))                              \* type soundness
  /\ (cell.present /\ WellTyped(T, cell.v) /\ cell.v.t # "K" => ~VarRes.refused)                                        \* well-typed structures are accepted
  \* a single value is wrapped at every list level
  /\ (cell.present /\ cell.v.t = "K" /\ ~VarRes.refused /\ IList(IF INN(T) THEN Tail(T) ELSE T) => VarRes.values["a"].t = "L")

\* ---- R1 (C05): the ways of supplying one value give the same argument dictionary -----------
LitV == LitFor(T, cell.v)
ArgsLit == CoerceArgsFull(<<ArgDefA>>, <<[name |-> "a", val |-> LitV]>>, <<>>)
ArgsVarDefault == LET vr == CoerceVars(<<[VDef EXCEPT !.hasDefault = TRUE, !.default = LitV]>>, <<>>) IN
                  [refused |-> vr.refused,
                   args |-> CoerceArgsFull(<<ArgDefA>>, <<[name |-> "a", val |-> [t |-> "var", v |-> "a"]]>>, vr.values)]
ArgsSchemaDefault == CoerceArgsFull(<<IField("a", T, TRUE, LitV)>>, <<>>, <<>>)
\* the value placed in a list / object literal through a variable of the item / field type
InnerT == IF INN(T) THEN Tail(T) ELSE T
ViaListVar == IList(InnerT) /\ cell.v.t = "L" /\ Len(cell.v.v) = 1
ArgsListVar == LET it == Tail(InnerT)
                   vr == CoerceVars(<<[name |-> "x", type |-> it, hasDefault |-> FALSE, default |-> NoLit]>>, [x |-> cell.v.v[1]]) IN
               [refused |-> vr.refused,
                args |-> CoerceArgsFull(<<ArgDefA>>, <<[name |-> "a", val |-> [t |-> "list", v |-> <<[t |-> "var", v |-> "x"]>>]]>>, vr.values)]
ViaObjVar == INamed(T) = "In1" /\ ~IList(InnerT) /\ cell.v.t = "O" /\ Len(cell.v.v) = 1 /\ cell.v.v[1][1] = "r"
ArgsObjVar == LET vr == CoerceVars(<<[name |-> "x", type |-> Nn(Nm("Int")), hasDefault |-> FALSE, default |-> NoLit]>>, [x |-> cell.v.v[1][2]]) IN
              [refused |-> vr.refused,
               args |-> CoerceArgsFull(<<ArgDefA>>, <<[name |-> "a", val |-> [t |-> "obj", v |-> << <<"r", [t |-> "var", v |-> "x"]>> >>]]>>, vr.values)]

Same(a, b) == a.ok = b.ok /\ (a.ok => a.v = b.v)
\* a JSON value is "spellable" when its literal denotes it exactly (a bare value given for a list type is spelled the same way)
R1_Ways == (Relevant /\ cell.present) =>
  /\ (~VarRes.refused => Same(ArgsVar, ArgsLit))
  /\ (VarRes.refused => ~ArgsLit.ok)
  /\ (~IsNull(cell.v) => (ArgsVarDefault.refused <=> VarRes.refused) /\ (~VarRes.refused => Same(ArgsVarDefault.args, ArgsVar)))
  /\ (~IsNull(cell.v) /\ ~VarRes.refused => Same(ArgsSchemaDefault, ArgsVar))
  /\ (ViaListVar /\ ~VarRes.refused /\ ~ArgsListVar.refused => Same(ArgsListVar.args, ArgsVar))
  /\ (ViaObjVar /\ ~VarRes.refused /\ ~ArgsObjVar.refused => Same(ArgsObjVar.args, ArgsVar))
  /\ (ArgsLit.ok /\ ArgsLit.v # <<>> => WellTyped(T, ArgsLit.v[1][2]))

GoodArgs(t) == CoerceArgsFull(<<IField("a", t, TRUE, LitFor(t, Good(t)))>>, <<>>, <<>>)
\* ---- two variables: one offending variable never masks another ------------------------------
PVDefs == << [name |-> "a", type |-> IF MODE = "pairs2" THEN Nm("Int") ELSE Nn(Nm("Int")), hasDefault |-> FALSE, default |-> NoLit],
             [name |-> "b", type |-> Li(Nn(Nm("E"))), hasDefault |-> FALSE, default |-> NoLit] >>
PGiven == LET da == IF MODE \in {"pairs", "pairs2"} /\ ~IsAbsent(cell.va) THEN {"a"} ELSE {}
              db == IF MODE \in {"pairs", "pairs2"} /\ ~IsAbsent(cell.vb) THEN {"b"} ELSE {} IN
          [x \in da \cup db |-> IF x = "a" THEN cell.va ELSE cell.vb]
PairRes == CoerceVars(PVDefs, PGiven)
R1_Pairs == MODE \in {"pairs", "pairs2"} =>
  /\ ("a" \in PairRes.offending <=> VarOutcome(PVDefs[1], PGiven).st = "bad")
  /\ ("b" \in PairRes.offending <=> VarOutcome(PVDefs[2], PGiven).st = "bad")
  /\ (PairRes.refused <=> PairRes.offending # {})
EmitPairs == MODE \in {"pairs", "pairs2"} => PrintT(ToJson([kind |-> "paircell", atype |-> PVDefs[1].type, given |-> {<<x, PGiven[x]>> : x \in DOMAIN PGiven},
      refused |-> PairRes.refused, offending |-> PairRes.offending,
      argsA |-> CoerceArgsFull(<<IField("a", PVDefs[1].type, FALSE, NoLit)>>, <<[name |-> "a", val |-> [t |-> "var", v |-> "a"]]>>, PairRes.values),
      argsB |-> CoerceArgsFull(<<IField("a", Li(Nn(Nm("E"))), FALSE, NoLit)>>, <<[name |-> "a", val |-> [t |-> "var", v |-> "b"]]>>, PairRes.values)]))

ASSUME PrintT(ToJson([kind |-> "itypes", types |-> TypeList, inputs |-> InputObjs,
                      goods |-> [i \in 1..Len(TypeList) |-> [lit |-> LitFor(TypeList[i], Good(TypeList[i])), args |-> GoodArgs(TypeList[i])]]]))

EmitVars == Relevant => PrintT(ToJson([kind |-> "varcell", ti |-> cell.ti, type |-> T, hasDefault |-> cell.hasDefault, default |-> VDef.default,
      present |-> cell.present, v |-> cell.v, refused |-> VarRes.refused, args |-> ArgsVar]))
EmitWays == (Relevant /\ cell.present) => PrintT(ToJson([kind |-> "waycell", ti |-> cell.ti, type |-> T, v |-> cell.v, lit |-> LitV,
      refused |-> VarRes.refused, argsVar |-> ArgsVar, argsLit |-> ArgsLit,
      viaList |-> ViaListVar /\ ~VarRes.refused, viaObj |-> ViaObjVar /\ ~VarRes.refused]))
=============================================================================
