------------------------------- MODULE Scalars -------------------------------
(* Coercion laws of the built-in scalars over a universe of value TOKENS.

   A token names an aligned family of concrete values kept in harness/tokens.py:
   representative k of "iS" (7, -1, 12) corresponds to representative k of
   "fS" (7.0, -1.0, 12.0), of "sS" ("7", "-1", "12") and so on, so an outcome such as
   Out("Float", "iS") = {"fS"} says: the same number, as a float.  TLC cannot hold
   2^31, 2^53, 1e308 or NaN concretely (32-bit integers, no reals); tokens name those
   boundary classes instead.

   Each cell is the SET of outcomes the June-2018 specification allows ("may coerce"
   gives two allowed outcomes); "FAIL" = a coercion error.                            *)
EXTENDS Naturals, Sequences, FiniteSets, TLC

Scalars5 == {"Int", "Float", "String", "Boolean", "ID"}

\* ---- the token universe ---------------------------------------------------------------
BoolToks   == {"bT", "bF"}
IntIn32    == {"iS", "iONE", "iZERO", "iMAX", "iMIN"}             \* integers within signed 32 bits
IntOut32   == {"iOVER", "i2P53", "iHUGE"}                        \* integers beyond them
IntToks    == IntIn32 \cup IntOut32
FloatInt32 == {"fS", "fONE", "fZERO", "fMAX", "fMIN"}             \* integral floats within 32 bits
FloatIntBig == {"fOVER", "f2P53", "fHUGEI", "fBIG"}              \* integral floats beyond (1e308 is an integer too)
FloatFrac  == {"fFRAC", "fDENORM"}                               \* finite, not integral
FloatFinite == FloatInt32 \cup FloatIntBig \cup FloatFrac
NonFinite  == {"NAN", "PINF", "NINF"}
FloatToks  == FloatFinite \cup NonFinite
StrNumInt  == {"sS", "sONE", "sZERO", "sMAX", "sMIN"}             \* text of an integer within 32 bits
StrNumOther == {"sOVER", "sFRAC", "s2P53", "sHUGE"}              \* text of another number
StrPlain   == {"sEMPTY", "sBLANK", "sTXT", "sUNI", "sTRUE", "sFALSE", "sNONFIN"}  \* sNONFIN: "nan", "inf", "1e999" - text float() would read as non-finite
StrToks    == StrNumInt \cup StrNumOther \cup StrPlain
Others     == {"LIST", "DICT", "BYTES", "TUPLE", "SET", "OBJ", "EXC"}
Tokens     == BoolToks \cup IntToks \cup FloatToks \cup StrToks \cup Others

\* aligned families: the same number in another representation
IntOfFloat == [ fS |-> "iS", fONE |-> "iONE", fZERO |-> "iZERO", fMAX |-> "iMAX", fMIN |-> "iMIN" ]
FloatOfInt == [ iS |-> "fS", iONE |-> "fONE", iZERO |-> "fZERO", iMAX |-> "fMAX", iMIN |-> "fMIN",
                iOVER |-> "fOVER", i2P53 |-> "f2P53", iHUGE |-> "fHUGEI" ]
IntOfStr   == [ sS |-> "iS", sONE |-> "iONE", sZERO |-> "iZERO", sMAX |-> "iMAX", sMIN |-> "iMIN" ]
StrOfInt   == [ iS |-> "sS", iONE |-> "sONE", iZERO |-> "sZERO", iMAX |-> "sMAX", iMIN |-> "sMIN", iOVER |-> "sOVER",
                i2P53 |-> "s2P53", iHUGE |-> "sHUGE" ]
FloatOfStr == [ sS |-> "fS", sONE |-> "fONE", sZERO |-> "fZERO", sMAX |-> "fMAX", sMIN |-> "fMIN", sOVER |-> "fOVER", sFRAC |-> "fFRAC",
                s2P53 |-> "f2P53", sHUGE |-> "fHUGEI" ]
IntOfBool  == [ bT |-> "iONE", bF |-> "iZERO" ]
FloatOfBool == [ bT |-> "fONE", bF |-> "fZERO" ]
StrOfBool  == [ bT |-> "sTRUE", bF |-> "sFALSE" ]
\* truth value of a number
TruthOf(t) == IF t \in {"iZERO", "fZERO"} THEN {"bF"} ELSE {"bT"}

FAIL == "FAIL"
ANYSTR == "ANYSTR"       \* some text (the specification leaves the rendering open)

\* ---- result coercion (resolver value -> wire value), June 2018 section 3.5 ---------------
OutInt(t) ==
  IF t \in IntIn32 THEN {t}
  ELSE IF t \in IntOut32 THEN {FAIL}
  ELSE IF t \in FloatInt32 THEN {IntOfFloat[t], t, FAIL}        \* "may return 1 for 1.0"; an integral float denotes the same integer
  ELSE IF t \in FloatToks THEN {FAIL}
  ELSE IF t \in BoolToks THEN {IntOfBool[t], FAIL}
  ELSE IF t \in StrNumInt THEN {IntOfStr[t], FAIL}             \* "or 123 for "123""
  ELSE {FAIL}

OutFloat(t) ==
  IF t \in FloatFinite THEN {t}
  ELSE IF t \in NonFinite THEN {FAIL}
  ELSE IF t \in IntToks THEN {FloatOfInt[t], FAIL}
  ELSE IF t \in BoolToks THEN {FloatOfBool[t], FAIL}
  ELSE IF t \in StrNumInt \cup StrNumOther THEN {FloatOfStr[t], FAIL}
  ELSE {FAIL}

OutString(t) ==
  IF t \in StrToks THEN {t}
  ELSE IF t \in BoolToks THEN {StrOfBool[t], FAIL}
  ELSE IF t \in IntToks THEN {StrOfInt[t], FAIL}
  ELSE {ANYSTR, FAIL}

OutBoolean(t) ==
  IF t \in BoolToks THEN {t}
  ELSE IF t \in IntToks \cup FloatFinite THEN TruthOf(t) \cup {FAIL}
  ELSE {FAIL}

OutID(t) ==
  IF t \in StrToks THEN {t}
  ELSE IF t \in IntToks THEN {StrOfInt[t]}
  ELSE IF t \in FloatInt32 THEN {StrOfInt[IntOfFloat[t]], FAIL}
  ELSE IF t \in FloatIntBig THEN {ANYSTR, FAIL}               \* an ID is not limited to 32 bits: the digits of the integer
  ELSE {FAIL}

Out(s, t) == IF s = "Int" THEN OutInt(t) ELSE IF s = "Float" THEN OutFloat(t) ELSE IF s = "String" THEN OutString(t)
             ELSE IF s = "Boolean" THEN OutBoolean(t) ELSE OutID(t)

\* ---- input coercion of a variable value (JSON value -> internal value) -----------------
InInt(t) ==
  IF t \in IntIn32 THEN {t}
  ELSE IF t \in FloatInt32 THEN {IntOfFloat[t], FAIL}          \* JSON does not distinguish 1 from 1.0
  ELSE {FAIL}
InFloat(t) ==
  IF t \in FloatFinite THEN {t}
  ELSE IF t \in IntToks THEN {FloatOfInt[t]}
  ELSE {FAIL}
InString(t)  == IF t \in StrToks THEN {t} ELSE {FAIL}
InBoolean(t) == IF t \in BoolToks THEN {t} ELSE {FAIL}
InID(t) ==
  IF t \in StrToks THEN {t}
  ELSE IF t \in IntToks THEN {StrOfInt[t]}
  ELSE IF t \in FloatInt32 THEN {StrOfInt[IntOfFloat[t]], FAIL}
  ELSE IF t \in FloatIntBig THEN {ANYSTR, FAIL}
  ELSE {FAIL}
In(s, t) == IF s = "Int" THEN InInt(t) ELSE IF s = "Float" THEN InFloat(t) ELSE IF s = "String" THEN InString(t)
            ELSE IF s = "Boolean" THEN InBoolean(t) ELSE InID(t)

\* ---- literal coercion: a literal is [k, t] with k the syntactic kind and t the token of
\* ---- the value it spells (IntValue iHUGE = a thirty-digit integer literal, FloatValue
\* ---- "fLITINF" = 1e400, which no float can hold)
LitKinds == {"IntValue", "FloatValue", "StringValue", "BooleanValue", "EnumValue", "ListValue", "ObjectValue"}
LitInt(l) ==
  IF l.k = "IntValue" /\ l.t \in IntIn32 THEN {l.t} ELSE {FAIL}
LitFloat(l) ==
  IF l.k = "IntValue" /\ l.t \in IntToks THEN {FloatOfInt[l.t]}
  ELSE IF l.k = "FloatValue" /\ l.t \in FloatFinite THEN {l.t}
  ELSE {FAIL}                                                   \* incl. FloatValue fLITINF: not a finite float
LitString(l)  == IF l.k = "StringValue" THEN {l.t} ELSE {FAIL}
LitBoolean(l) == IF l.k = "BooleanValue" THEN {l.t} ELSE {FAIL}
LitID(l) ==
  IF l.k = "StringValue" THEN {l.t}
  ELSE IF l.k = "IntValue" /\ l.t \in IntToks THEN {StrOfInt[l.t]}
  ELSE {FAIL}
LitC(s, l) == IF s = "Int" THEN LitInt(l) ELSE IF s = "Float" THEN LitFloat(l) ELSE IF s = "String" THEN LitString(l)
              ELSE IF s = "Boolean" THEN LitBoolean(l) ELSE LitID(l)

\* the literal that naturally spells a JSON value token
NaturalLit(t) ==
  IF t \in IntToks THEN [k |-> "IntValue", t |-> t]
  ELSE IF t \in FloatFinite THEN [k |-> "FloatValue", t |-> t]
  ELSE IF t \in StrToks THEN [k |-> "StringValue", t |-> t]
  ELSE IF t \in BoolToks THEN [k |-> "BooleanValue", t |-> t]
  ELSE [k |-> "none", t |-> t]
HasNaturalLit(t) == NaturalLit(t).k # "none"

\* ---- Date, Time, DateTime (well-formed values only) -------------------------------------------------
\* tokens: "d<S>" the datetime object the scalar stands for, "s<S>" its text; malformed inputs: other text,
\* text of another date scalar, numbers, booleans, containers
DateScalars == {"Date", "Time", "DateTime"}
DTok(s) == "d" \o s
STok(s) == "s" \o s
DateToks == {DTok(s) : s \in DateScalars} \cup {STok(s) : s \in DateScalars} \cup {"sTXT", "sDATEBAD", "iS", "bT", "LIST"}
OutDate(s, t) == IF t = DTok(s) THEN {STok(s)} ELSE IF t \in {DTok(x) : x \in DateScalars} THEN {ANYSTR, FAIL} ELSE {FAIL}
InDate(s, t) == IF t = STok(s) THEN {DTok(s)} ELSE {FAIL}
LitDate(s, l) == IF l.k = "StringValue" /\ l.t = STok(s) THEN {DTok(s)} ELSE {FAIL}
LawDates == \A s \in DateScalars :
   /\ \A r \in OutDate(s, DTok(s)) : r # FAIL /\ InDate(s, r) = {DTok(s)}           \* idempotence through the wire form
   /\ \A r \in InDate(s, STok(s)) : OutDate(s, r) = {STok(s)}
   /\ LitDate(s, [k |-> "StringValue", t |-> STok(s)]) = InDate(s, STok(s))           \* literal = variable
   /\ \A t \in DateToks \ {STok(s)} : InDate(s, t) = {FAIL}                         \* nothing else is accepted

\* ---- wire types and "denotes" --------------------------------------------------------------
ResultToks == Tokens
WireOK(s, r) ==
  IF s = "Int" THEN r \in IntIn32 \cup FloatInt32
  ELSE IF s = "Float" THEN r \in FloatFinite
  ELSE IF s \in {"String", "ID"} THEN r \in StrToks \cup {ANYSTR, "s2P53", "sHUGE"}
  ELSE r \in BoolToks

\* ---- R1: the laws, as theorems TLC checks over the whole token universe -----------------
\* L1 result coercion either fails or yields a value of the wire type
LawWire == \A s \in Scalars5, t \in Tokens : \A r \in Out(s, t) : r = FAIL \/ WireOK(s, r)
\* L2 input coercion never accepts the forbidden kinds
LawInputKinds ==
  /\ \A t \in BoolToks \cup StrToks \cup Others : In("Int", t) = {FAIL} /\ In("Float", t) = {FAIL}
  /\ \A t \in Tokens \ StrToks : In("String", t) = {FAIL}
  /\ \A t \in Tokens \ BoolToks : In("Boolean", t) = {FAIL}
  /\ \A t \in IntOut32 \cup FloatFrac \cup FloatIntBig \cup NonFinite : In("Int", t) = {FAIL}
  /\ \A t \in NonFinite : In("Float", t) = {FAIL}
  /\ \A s \in Scalars5, t \in Others : In(s, t) = {FAIL}
\* L2' ... and accepts the required ones
LawInputAccepts ==
  /\ \A t \in IntIn32 : In("Int", t) = {t} /\ FAIL \notin In("Float", t) /\ FAIL \notin In("ID", t)
  /\ \A t \in FloatFinite : In("Float", t) = {t}
  /\ \A t \in StrToks : In("String", t) = {t} /\ In("ID", t) = {t}
  /\ \A t \in BoolToks : In("Boolean", t) = {t}
\* L3 a literal of the natural kind and a variable carrying the same JSON value agree
LawLitVar == \A s \in Scalars5, t \in Tokens :
  HasNaturalLit(t) => \/ LitC(s, NaturalLit(t)) \subseteq In(s, t)
                      \/ (s = "Int" /\ t \in FloatInt32)        \* 1.0 is a FloatValue literal (refused) but a JSON number (may be accepted)
                      \/ (s = "ID" /\ t \in FloatInt32 \cup FloatIntBig)
\* L4 idempotence: a produced result fed back as input yields the same value
LawIdem == \A s \in Scalars5, t \in Tokens : \A r \in Out(s, t) :
  (r # FAIL /\ r # ANYSTR /\ r \in Tokens) => \/ r \in In(s, r)
                                              \/ (s = "Int" /\ r \in FloatInt32)   \* see OutInt: 1.0 for an Int (weak reading)
\* no cell is empty
LawTotal == \A s \in Scalars5, t \in Tokens : Out(s, t) # {} /\ In(s, t) # {}
=============================================================================
