#!/usr/bin/env python3
"""Writes the TLC .cfg files of the generator configurations from one table, so that
every configuration states its constants in one place."""
import os
HERE = os.path.dirname(os.path.abspath(__file__))

def cfg(name, module_consts, invariants, spec="Spec", props=(), constraint=None, extra=""):
    lines = ["SPECIFICATION %s" % spec, "CONSTANTS"]
    for k, v in module_consts.items():
        lines.append("  %s %s" % (k, v))
    for i in invariants:
        lines.append("INVARIANT %s" % i)
    for p in props:
        lines.append("PROPERTY %s" % p)
    if constraint:
        lines.append("CONSTRAINT %s" % constraint)
    lines.append("CHECK_DEADLOCK FALSE")
    if extra:
        lines.append(extra)
    with open(os.path.join(HERE, name), "w") as f:
        f.write("\n".join(lines) + "\n")

def exec_consts(**kw):
    d = {"Types": "<- TypesExec", "Roots": "<- RootsExec", "MaxSel": "= 4", "MaxDepth": "= 3", "MaxFrags": "= 0",
         "MaxOps": "= 1", "OpTypes": '= {"query"}', "FieldAlpha": "<- AlphaBasic", "Aliases": '= {"", "z"}',
         "Conds": '= {""}', "DirOpts": "<- NoDirs", "ArgOpts": "<- ArgOptsNone", "VarTypes": "<- VarTypesStd",
         "VarVals": "<- VarValsStd", "MaxOverlay": "= 1", "TRSets": "<- NoTR", "FalsyOverlays": "= FALSE"}
    d.update(kw)
    return d

EXEC_INV = ["R1_Exec", "Emit"]
# ---- C01 / C06: fault-free execution ---------------------------------------------------
cfg("MC_exec_basic.cfg", exec_consts(), EXEC_INV)
cfg("MC_exec_abstract.cfg", exec_consts(FieldAlpha="<- AlphaAbstract", Aliases='= {""}', Conds='= {"", "A", "B", "P", "C"}', MaxSel="= 4"), EXEC_INV)
cfg("MC_exec_typeres.cfg", exec_consts(FieldAlpha="<- AlphaTypeRes", Aliases='= {""}', Conds='= {"", "A", "B"}', MaxSel="= 3", TRSets="<- AllTR"), EXEC_INV)
cfg("MC_exec_widen.cfg", exec_consts(FieldAlpha="<- AlphaWiden", Aliases='= {""}', Conds='= {"P", "A"}', MaxSel="= 4", MaxOverlay="= 0"), EXEC_INV)
cfg("MC_exec_falsy.cfg", exec_consts(FieldAlpha="<- AlphaFalsy", Aliases='= {"", "z"}', Conds='= {"", "B"}', MaxSel="= 3", FalsyOverlays="= TRUE"), EXEC_INV)
cfg("MC_exec_long.cfg", exec_consts(FieldAlpha="<- AlphaLong", Aliases='= {""}', MaxSel="= 3", MaxOverlay="= 2"), EXEC_INV)
cfg("MC_exec_objlit.cfg", exec_consts(FieldAlpha="<- AlphaObjLit", ArgOpts="<- ArgOptsObjLit", Aliases='= {"", "z"}', MaxSel="= 2", MaxOverlay="= 0"), EXEC_INV)
cfg("MC_exec_lists.cfg", exec_consts(FieldAlpha="<- AlphaLists", Aliases='= {""}', MaxSel="= 3"), EXEC_INV)
cfg("MC_exec_args.cfg", exec_consts(FieldAlpha="<- AlphaArgs", ArgOpts="<- ArgOptsStd", Aliases='= {"", "z"}', MaxSel="= 3", MaxOverlay="= 0"), EXEC_INV)
cfg("MC_exec_frag.cfg", exec_consts(FieldAlpha="<- AlphaFrag", Aliases='= {""}', Conds='= {"T", "P", "A", "Query"}', MaxFrags="= 2", MaxSel="= 4", MaxOverlay="= 0"), EXEC_INV)
cfg("MC_exec_fragq.cfg", exec_consts(FieldAlpha="<- AlphaFragQ", Aliases='= {""}', Conds='= {"T", "Query"}', MaxFrags="= 3", MaxSel="= 5", MaxOverlay="= 0"), EXEC_INV)
cfg("MC_exec_dirs.cfg", exec_consts(FieldAlpha="<- AlphaDirs", Aliases='= {""}', Conds='= {""}', DirOpts="<- DirsBoth", MaxSel="= 3", MaxOverlay="= 0"), EXEC_INV)
cfg("MC_exec_dirs2.cfg", exec_consts(FieldAlpha="<- AlphaDirs2", Aliases='= {""}', DirOpts="<- DirsMix", MaxSel="= 4", MaxOverlay="= 0"), EXEC_INV)
cfg("MC_exec_ops.cfg", exec_consts(FieldAlpha="<- AlphaOps", Aliases='= {""}', MaxOps="= 2", MaxFrags="= 1", Conds='= {"T"}', OpTypes='= {"query", "mutation"}', MaxSel="= 4", MaxOverlay="= 0", DirOpts="<- DirsVarOnly"), EXEC_INV)
cfg("MC_exec_mut.cfg", exec_consts(FieldAlpha="<- AlphaMut", OpTypes='= {"mutation"}', Aliases='= {"", "z"}', MaxSel="= 4"), EXEC_INV)
cfg("MC_exec_merge.cfg", exec_consts(FieldAlpha="<- AlphaMerge", Aliases='= {""}', Conds='= {"A", "B"}', MaxSel="= 6", MaxDepth="= 4", MaxOverlay="= 0"), EXEC_INV)
cfg("MC_exec_ops2.cfg", exec_consts(FieldAlpha="<- AlphaOps2", Aliases='= {""}', MaxOps="= 2", MaxFrags="= 2", Conds='= {"Query"}', MaxSel="= 4", MaxDepth="= 2", MaxOverlay="= 0",
    DirOpts="<- DirsVarOnly", ArgOpts="<- ArgOptsOps2", VarVals="<- VarValsSmall"), EXEC_INV)
cfg("MC_exec_merget.cfg", exec_consts(FieldAlpha="<- AlphaMergeT", Aliases='= {""}', Conds='= {"A"}', MaxSel="= 7", MaxDepth="= 4", MaxOverlay="= 0"), EXEC_INV)
cfg("MC_exec_merge2.cfg", exec_consts(FieldAlpha="<- AlphaMerge2", Aliases='= {""}', Conds='= {"T"}', MaxFrags="= 1", MaxSel="= 5", MaxDepth="= 3", MaxOverlay="= 0"), EXEC_INV)
cfg("MC_exec_mutargs.cfg", exec_consts(FieldAlpha="<- AlphaMutArgs", OpTypes='= {"mutation"}', Aliases='= {"", "z"}', ArgOpts="<- ArgOptsFew", MaxSel="= 4", MaxOverlay="= 0"), EXEC_INV)
cfg("MC_exec_fragvar.cfg", exec_consts(FieldAlpha="<- AlphaFragVar", Aliases='= {""}', Conds='= {"T"}', MaxFrags="= 2", DirOpts="<- DirsVarOnly", MaxSel="= 4", MaxOverlay="= 0"), EXEC_INV)
S2 = dict(Types="<- TypesExec2", Roots="<- RootsExec2", VarTypes="<- VarTypesS2", VarVals="<- VarValsS2", ArgOpts="<- ArgOptsS2")
cfg("MC_exec_s2.cfg", exec_consts(FieldAlpha="<- AlphaS2", Aliases='= {""}', Conds='= {"", "Leaf", "Branch", "Node"}', MaxSel="= 4", MaxOverlay="= 1", **S2), EXEC_INV)
cfg("MC_exec_s2g.cfg", exec_consts(FieldAlpha="<- AlphaS2G", Aliases='= {"", "z"}', Conds='= {"", "Leaf"}', MaxSel="= 3", MaxOverlay="= 1", **S2), EXEC_INV)
cfg("MC_exec_s2m.cfg", exec_consts(FieldAlpha="<- AlphaS2M", OpTypes='= {"mutation"}', Aliases='= {"", "z"}', MaxSel="= 3", MaxOverlay="= 0", **S2), EXEC_INV)
# thorough
cfg("MC_exec_basic5.cfg", exec_consts(MaxSel="= 5", MaxOverlay="= 0"), EXEC_INV)
cfg("MC_exec_abstract5.cfg", exec_consts(FieldAlpha="<- AlphaAbstract", Aliases='= {""}', Conds='= {"", "A", "B", "P", "C"}', MaxSel="= 5", MaxOverlay="= 0"), EXEC_INV)
cfg("MC_exec_frag5.cfg", exec_consts(FieldAlpha="<- AlphaFrag", Aliases='= {""}', Conds='= {"T", "P", "A", "Query"}', MaxFrags="= 2", MaxSel="= 5", MaxOverlay="= 0"), EXEC_INV)
cfg("MC_exec_dirs5.cfg", exec_consts(FieldAlpha="<- AlphaDirs", Aliases='= {""}', Conds='= {""}', DirOpts="<- DirsBoth", MaxSel="= 4", MaxOverlay="= 0"), EXEC_INV)
cfg("MC_exec_lists5.cfg", exec_consts(FieldAlpha="<- AlphaLists", Aliases='= {""}', MaxSel="= 4"), EXEC_INV)

# ---- C02: fault enumeration ------------------------------------------------------------
FAULT_INV = ["R1_Faults", "EmitF"]
def fault_consts(**kw):
    d = exec_consts(MaxOverlay="= 0", MaxFaults="= 1", MaxSel="= 3")
    d.update(kw)
    return d
cfg("MC_faults_layout.cfg", fault_consts(FieldAlpha="<- AlphaLayout", Aliases='= {""}', MaxFaults="= 2", MaxSel="= 2"), FAULT_INV, spec="SpecF")
cfg("MC_faults_nested.cfg", fault_consts(FieldAlpha="<- AlphaNested", Aliases='= {""}', MaxFaults="= 1", MaxSel="= 3"), FAULT_INV, spec="SpecF")
cfg("MC_faults_abstract.cfg", fault_consts(FieldAlpha="<- AlphaAbstractF", Aliases='= {""}', Conds='= {"", "A", "B"}', MaxFaults="= 1", MaxSel="= 3"), FAULT_INV, spec="SpecF")
cfg("MC_faults_pairs.cfg", fault_consts(FieldAlpha="<- AlphaPairs", Aliases='= {"", "z"}', MaxFaults="= 2", MaxSel="= 3"), FAULT_INV, spec="SpecF")
cfg("MC_faults_mut.cfg", fault_consts(FieldAlpha="<- AlphaMutF", OpTypes='= {"mutation"}', Aliases='= {""}', MaxFaults="= 2", MaxSel="= 3"), FAULT_INV, spec="SpecF")
cfg("MC_faults_args.cfg", fault_consts(FieldAlpha="<- AlphaArgsF", ArgOpts="<- ArgOptsFail", Aliases='= {"", "z"}', MaxFaults="= 1", MaxSel="= 3"), FAULT_INV, spec="SpecF")
cfg("MC_faults_cs.cfg", fault_consts(FieldAlpha="<- AlphaCs", Aliases='= {""}', MaxFaults="= 1", MaxSel="= 3"), FAULT_INV, spec="SpecF")
cfg("MC_faults_csm.cfg", fault_consts(FieldAlpha="<- AlphaCsM", OpTypes='= {"mutation"}', Aliases='= {"", "z"}', MaxFaults="= 1", MaxSel="= 3"), FAULT_INV, spec="SpecF")
cfg("MC_exec_cs.cfg", exec_consts(FieldAlpha="<- AlphaCs", Aliases='= {""}', MaxSel="= 3"), EXEC_INV)
cfg("MC_faults_gd.cfg", fault_consts(FieldAlpha="<- AlphaGdF", ArgOpts="<- ArgOptsFail", Aliases='= {"", "z"}', MaxFaults="= 1", MaxSel="= 3"), FAULT_INV, spec="SpecF")
cfg("MC_faults_s2.cfg", fault_consts(FieldAlpha="<- AlphaS2", Aliases='= {""}', Conds='= {"", "Leaf"}', MaxFaults="= 1", MaxSel="= 3", **S2), FAULT_INV, spec="SpecF")
cfg("MC_faults_s2g.cfg", fault_consts(FieldAlpha="<- AlphaS2G", Aliases='= {""}', MaxFaults="= 2", MaxSel="= 2", **S2), FAULT_INV, spec="SpecF")
cfg("MC_faults_layout3.cfg", fault_consts(FieldAlpha="<- AlphaLayout", Aliases='= {""}', MaxFaults="= 2", MaxSel="= 3"), FAULT_INV, spec="SpecF")
cfg("MC_faults_nested4.cfg", fault_consts(FieldAlpha="<- AlphaNested", Aliases='= {""}', MaxFaults="= 2", MaxSel="= 4"), FAULT_INV, spec="SpecF")

# ---- C08 / C09: scheduler ---------------------------------------------------------------
def sched_consts(**kw):
    d = fault_consts(SeqFields="= {}", LConc="= TRUE", WithFaults="= FALSE")
    d.update(kw)
    return d
SCHED_INV = ["R1_Sched", "R1_Serial", "EmitS"]
SCHED_R1 = ["R1_Sched", "R1_Serial"]
FLAGSETS = {"cc": dict(SeqFields="= {}", LConc="= TRUE"), "cs": dict(SeqFields="= {}", LConc="= FALSE"),
            "sc": dict(SeqFields="<- AllFieldNames", LConc="= TRUE"), "ss": dict(SeqFields="<- AllFieldNames", LConc="= FALSE"),
            "mc": dict(SeqFields="<- SomeFieldNames", LConc="= TRUE"), "ms": dict(SeqFields="<- SomeFieldNames", LConc="= FALSE")}
for fk, fl in FLAGSETS.items():
    cfg("MC_sched_q_%s.cfg" % fk, sched_consts(FieldAlpha="<- AlphaSched", Aliases='= {""}', MaxSel="= 4", WithFaults="= FALSE", **fl), SCHED_INV, spec="SpecS")
    cfg("MC_sched_f_%s.cfg" % fk, sched_consts(FieldAlpha="<- AlphaSchedF", Aliases='= {""}', MaxSel="= 3", WithFaults="= TRUE", **fl), SCHED_INV, spec="SpecS")
    cfg("MC_sched_m_%s.cfg" % fk, sched_consts(FieldAlpha="<- AlphaSchedM", OpTypes='= {"mutation"}', Aliases='= {""}', MaxSel="= 3", WithFaults="= TRUE", **fl), SCHED_INV, spec="SpecS")
    cfg("MC_sched_mq_%s.cfg" % fk, sched_consts(FieldAlpha="<- AlphaSchedM2", OpTypes='= {"mutation"}', Aliases='= {"", "z"}', Conds='= {"Mutation"}', MaxFrags="= 1", MaxSel="= 4", WithFaults="= FALSE", **fl), SCHED_INV, spec="SpecS")
    cfg("MC_sched_mz_%s.cfg" % fk, sched_consts(FieldAlpha="<- AlphaSchedM", OpTypes='= {"mutation"}', Aliases='= {"", "z"}', MaxSel="= 3", WithFaults="= TRUE", **fl), SCHED_INV, spec="SpecS")
cfg("MC_sched_f2_cc.cfg", sched_consts(FieldAlpha="<- AlphaSchedF2", Aliases='= {""}', MaxSel="= 3", WithFaults="= TRUE", MaxFaults="= 2", **FLAGSETS["cc"]), SCHED_INV, spec="SpecS")
cfg("MC_sched_f2_mc.cfg", sched_consts(FieldAlpha="<- AlphaSchedF2", Aliases='= {""}', MaxSel="= 3", WithFaults="= TRUE", MaxFaults="= 2", **FLAGSETS["mc"]), SCHED_INV, spec="SpecS")
for fk in ("cc", "ss", "mc"):
    cfg("MC_sched_ma_%s.cfg" % fk, sched_consts(FieldAlpha="<- AlphaSchedMA", ArgOpts="<- ArgOptsMA", OpTypes='= {"mutation"}', Aliases='= {""}', MaxSel="= 3", WithFaults="= FALSE", **FLAGSETS[fk]), SCHED_INV, spec="SpecS")
for fk in ("cc", "ms"):
    cfg("MC_sched_a_%s.cfg" % fk, sched_consts(FieldAlpha="<- AlphaSchedA", ArgOpts="<- ArgOptsFew", Aliases='= {"", "z"}', MaxSel="= 4", WithFaults="= FALSE", **FLAGSETS[fk]), SCHED_INV, spec="SpecS")
# merged sub-selections that differ per runtime type (type-conditioned fragment under a list of an interface)
for fk in ("cc", "ss"):
    cfg("MC_sched_p_%s.cfg" % fk, sched_consts(FieldAlpha="<- AlphaSchedP", Aliases='= {""}', Conds='= {"A"}', MaxSel="= 6", MaxDepth="= 4", WithFaults="= FALSE", **FLAGSETS[fk]), SCHED_INV, spec="SpecS")
# a non-null mutation root whose value the scalar's own output coercion turns into null
for fk in ("cc", "ss"):
    cfg("MC_sched_mcs_%s.cfg" % fk, sched_consts(FieldAlpha="<- AlphaCsM", OpTypes='= {"mutation"}', Aliases='= {""}', MaxSel="= 3", WithFaults="= TRUE", MaxFaults=("= 2" if fk == "ss" else "= 1"), **FLAGSETS[fk]), SCHED_INV, spec="SpecS")
cfg("MC_sched_live.cfg", sched_consts(FieldAlpha="<- AlphaSchedF", Aliases='= {""}', MaxSel="= 3", WithFaults="= TRUE", SeqFields="<- SomeFieldNames", LConc="= FALSE"), SCHED_R1, spec="FairSpecS", props=["Termination"], extra="VIEW NoHist")

# ---- C15: several requests in flight ------------------------------------------------------
MULTI_INV = ["R1_Multi", "EmitM"]
def multi_consts(**kw):
    d = fault_consts(SeqFields="= {}", LConc="= TRUE", NReq="= 2", OverlayKinds="<- OKinds")
    d.update(kw)
    return d
cfg("MC_multi_vars.cfg", multi_consts(FieldAlpha="<- AlphaMultiV", ArgOpts="<- ArgOptsMulti", DirOpts="<- DirsVarOnly", Aliases='= {""}', MaxSel="= 2", VarVals="<- VarValsSmall", OverlayKinds="= {}"), MULTI_INV, spec="SpecM")
cfg("MC_multi_nested.cfg", multi_consts(FieldAlpha="<- AlphaMultiN", DirOpts="<- DirsVarOnly", Aliases='= {""}', MaxSel="= 3", MaxDepth="= 2", VarVals="<- VarValsSmall", OverlayKinds="= {}"), MULTI_INV, spec="SpecM")
cfg("MC_multi_ops.cfg", multi_consts(FieldAlpha="<- AlphaMultiO", MaxOps="= 2", Aliases='= {""}', MaxSel="= 3", OverlayKinds="<- OKindsRaise"), MULTI_INV, spec="SpecM")
cfg("MC_multi_faults.cfg", multi_consts(FieldAlpha="<- AlphaMultiF", Aliases='= {""}', MaxSel="= 2", SeqFields="<- SomeFieldNames", LConc="= FALSE"), MULTI_INV, spec="SpecM")
cfg("MC_multi_dirs.cfg", multi_consts(FieldAlpha="<- AlphaMultiD", DirOpts="<- DirsMixW", Aliases='= {""}', MaxSel="= 2", MaxDepth="= 2", VarVals="<- VarValsBoolBoth", OverlayKinds="= {}"), MULTI_INV, spec="SpecM")
cfg("MC_multi_frag.cfg", multi_consts(FieldAlpha="<- AlphaMultiN", Aliases='= {""}', Conds='= {"T"}', MaxFrags="= 2", MaxSel="= 4", MaxDepth="= 2", OverlayKinds="= {}"), MULTI_INV, spec="SpecM")
cfg("MC_multi_three.cfg", multi_consts(FieldAlpha="<- AlphaMultiT", Aliases='= {""}', MaxSel="= 1", NReq="= 3"), MULTI_INV, spec="SpecM")

# ---- C16: cache / history ------------------------------------------------------------------
CACHE_INV = ["Coherent", "Bounded", "NoDupKeys", "Transparent", "ErrorClassesRunNothing", "EmitE"]
def cache_consts(**kw):
    d = {"Types": "<- TypesExec", "Roots": "<- RootsExec", "Docs": "<- DocsStd", "ReqPool": "<- PoolSmall", "Capacity": "= 1", "MaxLen": "= 4"}
    d.update(kw)
    return d
for cap, nm in ((0, "off"), (1, "k1"), (2, "k2"), (99, "inf")):
    cfg("MC_cache_%s.cfg" % nm, cache_consts(Capacity="= %d" % cap, MaxLen="= 4"), CACHE_INV, spec="SpecE")
    cfg("MC_cache_%s_big.cfg" % nm, cache_consts(Capacity="= %d" % cap, MaxLen="= 4", ReqPool="<- PoolStd"), CACHE_INV, spec="SpecE")

# ---- C14: subscriptions ----------------------------------------------------------------------
SUB_INV = ["R1_Sub", "EmitSub"]
def sub_consts(**kw):
    d = fault_consts(OpTypes='= {"subscription"}', MaxEvents="= 2", EventKinds="<- EvKinds", AllowRefused="= TRUE", FieldAlpha="<- AlphaSub", ArgOpts="<- ArgOptsSub", Aliases='= {"", "z"}', MaxSel="= 3", VarVals="<- VarValsSmall")
    d.update(kw)
    return d
cfg("MC_sub_2.cfg", sub_consts(MaxSel="= 2"), SUB_INV, spec="SpecSub", props=["SubProgress"])
cfg("MC_sub_3.cfg", sub_consts(MaxEvents="= 3", MaxSel="= 2", Aliases='= {""}', FieldAlpha="<- AlphaSub3", AllowRefused="= FALSE", EventKinds="<- EvKinds2", ArgOpts="<- ArgOptsSub3"), SUB_INV, spec="SpecSub", props=["SubProgress"])
cfg("MC_sub_2_big.cfg", sub_consts(), SUB_INV, spec="SpecSub", props=["SubProgress"])
cfg("MC_sub_3_big.cfg", sub_consts(MaxEvents="= 3", MaxSel="= 2", Aliases='= {""}'), SUB_INV, spec="SpecSub", props=["SubProgress"])
cfg("MC_sub_fragd.cfg", sub_consts(MaxEvents="= 1", MaxSel="= 4", Aliases='= {""}', MaxFrags="= 1", Conds='= {"T"}', FieldAlpha="<- AlphaSub3", AllowRefused="= FALSE",
    ArgOpts="<- ArgOptsSub3", DirOpts="<- DirsSkipT", EventKinds="<- EvKinds2"), SUB_INV, spec="SpecSub", props=["SubProgress"])
cfg("MC_sub_frag.cfg", sub_consts(MaxEvents="= 2", MaxSel="= 3", Aliases='= {""}', MaxFrags="= 1", Conds='= {"T", "Subscription"}', FieldAlpha="<- AlphaSub2", AllowRefused="= FALSE", ArgOpts="<- ArgOptsSub3"), SUB_INV, spec="SpecSub", props=["SubProgress"])

# ---- simulation configs: large documents for the R3 drivers ---------------------------------
cfg("MC_exec_sim.cfg", exec_consts(FieldAlpha="<- AlphaAll", Aliases='= {"", "z"}', Conds='= {"", "T", "P", "A", "B", "C", "U", "Query"}', DirOpts="<- DirsBoth",
    ArgOpts="<- ArgOptsStd", MaxSel="= 10", MaxDepth="= 4", MaxFrags="= 2", MaxOps="= 2", OpTypes='= {"query", "mutation"}', MaxOverlay="= 0"), EXEC_INV)
cfg("MC_exec_simd.cfg", exec_consts(FieldAlpha="<- AlphaSimF", Aliases='= {""}', Conds='= {"T", "Query"}', DirOpts="<- DirsBoth",
    MaxSel="= 7", MaxDepth="= 3", MaxFrags="= 2", MaxOps="= 1", MaxOverlay="= 0"), EXEC_INV)
cfg("MC_exec_sim3.cfg", exec_consts(FieldAlpha="<- AlphaAll", Aliases='= {"", "z"}', Conds='= {"", "T", "P", "A", "B", "C", "U"}', DirOpts="<- NoDirs",
    ArgOpts="<- ArgOptsStd", MaxSel="= 12", MaxDepth="= 4", MaxFrags="= 1", MaxOps="= 1", OpTypes='= {"query", "mutation"}', MaxOverlay="= 0"), EXEC_INV)

for cap, nm in ((0, "off"), (1, "k1"), (99, "inf")):
    cfg("MC_hist_%s.cfg" % nm, cache_consts(Capacity="= %d" % cap, MaxLen="= 4", ReqPool="<- PoolHist"), CACHE_INV, spec="SpecE")
# ---- C18: envelope (operation selection x variables matrix; one request per behaviour) ---------
cfg("MC_env.cfg", cache_consts(Capacity="= 99", MaxLen="= 1", ReqPool="<- PoolEnv"), CACHE_INV, spec="SpecE")

# ---- C04 / C05: input coercion cells, split by type index ranges ---------------------------------
for mode, inv in (("vars", ["R1_Vars", "EmitVars"]), ("ways", ["R1_Ways", "EmitWays"])):
    for part, (lo, hi) in enumerate([(1, 16), (17, 32), (33, 44), (45, 52), (53, 60), (61, 99)]):
        cfg("MC_%s_%d.cfg" % (mode, part), {"MODE": '= "%s"' % mode, "TLO": "= %d" % lo, "THI": "= %d" % hi}, inv)
cfg("MC_pairs.cfg", {"MODE": '= "pairs"', "TLO": "= 1", "THI": "= 1"}, ["R1_Pairs", "EmitPairs"])
cfg("MC_pairs2.cfg", {"MODE": '= "pairs2"', "TLO": "= 1", "THI": "= 1"}, ["R1_Pairs", "EmitPairs"])

# ---- C06 / C07: validation ---------------------------------------------------------------------------
VALID_INV = ["R1_SeedsValid", "R1_RewritesInvalid", "EmitV"]
def valid_consts(**kw):
    d = {"Types": "<- TypesExec", "Roots": "<- RootsExec", "MaxSel": "= 3", "MaxDepth": "= 3", "MaxFrags": "= 1", "MaxOps": "= 1",
         "OpTypes": '= {"query"}', "FieldAlpha": "<- AlphaV1", "Aliases": '= {""}', "Conds": '= {"", "T"}', "DirOpts": "<- NoDirs",
         "ArgOpts": "<- ArgOptsV", "VarTypes": "<- VarTypesV", "VarVals": "<- VarValsV"}
    d.update(kw)
    return d
cfg("MC_valid_1.cfg", valid_consts(), VALID_INV, spec="SpecV")
cfg("MC_valid_2.cfg", valid_consts(FieldAlpha="<- AlphaV2", Conds='= {"", "T", "P", "A"}', MaxFrags="= 2"), VALID_INV, spec="SpecV")
cfg("MC_valid_4.cfg", valid_consts(FieldAlpha="<- AlphaV2", Conds='= {"", "A"}', MaxFrags="= 0", DirOpts="<- DirsV"), VALID_INV, spec="SpecV")
cfg("MC_valid_2_big.cfg", valid_consts(FieldAlpha="<- AlphaV2", Conds='= {"", "T", "P", "A"}', MaxFrags="= 2", DirOpts="<- DirsV"), VALID_INV, spec="SpecV")
cfg("MC_valid_3.cfg", valid_consts(FieldAlpha="<- AlphaV3", OpTypes='= {"subscription", "mutation", "query"}', MaxOps="= 2", MaxSel="= 3", Conds='= {"", "Subscription"}', MaxFrags="= 1"), VALID_INV, spec="SpecV")

# ---- C11 / C12: schema models -----------------------------------------------------------------------
SCHEMA_INV = ["R1_WellFormed", "R1_Broken", "R1_ImageExact", "Emit"]
cfg("MC_schema_models.cfg", {"MaxSteps": "= 1", "BreakSteps": "<- Never", "EmitModels": "= TRUE"}, SCHEMA_INV)
cfg("MC_schema_models2.cfg", {"MaxSteps": "= 2", "BreakSteps": "<- Never", "EmitModels": "= TRUE"}, SCHEMA_INV)
cfg("MC_schema_breaks.cfg", {"MaxSteps": "= 1", "BreakSteps": "= 1", "EmitModels": "= FALSE"}, SCHEMA_INV)
cfg("MC_schema_breaks0.cfg", {"MaxSteps": "= 0", "BreakSteps": "= 0", "EmitModels": "= FALSE"}, SCHEMA_INV)

# R3 (several requests): small alphabet, so that most drawn documents define and spread fragments (same names F1 / F2, different bodies)
cfg("MC_faults_simf.cfg", fault_consts(FieldAlpha="<- AlphaSimF", Aliases='= {""}', Conds='= {"T", "Query"}', DirOpts="<- NoDirs",
    MaxSel="= 7", MaxDepth="= 3", MaxFrags="= 2", MaxOps="= 1", MaxFaults="= 1"), FAULT_INV, spec="SpecF")
# R3 (several requests): documents with type-conditioned fragments wider than their parent type beside lists of the interface
cfg("MC_faults_simw.cfg", fault_consts(FieldAlpha="<- AlphaWiden", Aliases='= {""}', Conds='= {"P", "A"}', DirOpts="<- NoDirs",
    MaxSel="= 4", MaxDepth="= 3", MaxFrags="= 1", MaxOps="= 1", MaxFaults="= 1"), FAULT_INV, spec="SpecF")
# ---- R3 (schedules): large faulty requests drawn by TLC in simulation mode -----------------------------
cfg("MC_faults_sim.cfg", fault_consts(FieldAlpha="<- AlphaAllF", Aliases='= {"", "z"}', Conds='= {"", "T", "P", "A", "B", "C", "U"}', DirOpts="<- NoDirs",
    ArgOpts="<- ArgOptsStdF", MaxSel="= 9", MaxDepth="= 4", MaxFrags="= 1", MaxOps="= 1", OpTypes='= {"query", "mutation"}', MaxFaults="= 1"), FAULT_INV, spec="SpecF")
