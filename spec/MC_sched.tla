------------------------------ MODULE MC_sched -------------------------------
(* R1 + R2 configuration for C08 / C09: requests (documents x faults) from the
   generators of MC_exec / MC_faults, then every schedule of the gated resolvers:
   the only action of the run phase is Release(p) for a pending resolver p.         *)
EXTENDS MC_faults, Sched

CONSTANTS SeqFields,    \* names of the fields whose parent_concurrently is false
          LConc,        \* lists coerced concurrently?
          WithFaults    \* FALSE: fault-free requests only (PickNone), TRUE: one or two faults

VARIABLES released, hist
svars == <<nodes, phase, pick, released, hist>>

Flags == [seq |-> SeqFields, lconc |-> LConc]
CurSim == Sim(Ctx, Flags, released)
Pending == CurSim.started \ released

PickNone ==
  /\ phase = "pick"
  /\ \E op \in OpIds :
       \E g \in Assignments(nodes, op) :
         /\ GoodAssignment(nodes, op, g)
         /\ pick' = [op |-> op, given |-> g, overlay |-> <<>>]
  /\ phase' = "done" /\ UNCHANGED nodes

InitS == Init /\ released = {} /\ hist = <<>>
Build == (AddOp \/ AddFrag \/ AddField \/ AddInline \/ AddSpread \/ Finish \/ (IF WithFaults THEN PickF ELSE PickNone))
         /\ UNCHANGED <<released, hist>>
Release ==
  /\ phase = "done"
  /\ \E p \in Pending :
       /\ released' = released \cup {p}
       /\ hist' = Append(hist, [rel |-> p, pending |-> Sim(Ctx, Flags, released \cup {p}).started \ (released \cup {p})])
  /\ UNCHANGED <<nodes, phase, pick>>
NextS == Build \/ Release
SpecS == InitS /\ [][NextS]_svars
FairSpecS == SpecS /\ WF_svars(Release) /\ WF_svars(Build)

NoHist == <<nodes, phase, pick, released>>       \* VIEW for the property-only configs

VisibleNulls(ns) == {n \in ns : ~\E m \in ns : m.at # n.at /\ IsPrefixPath(m.at, n.at)}

R1_Sched == phase = "done" =>
  LET s == CurSim
      b == BigStep(Ctx) IN
  /\ released \subseteq s.started
  /\ (~SimDone(s) => s.started \ released # {})                     \* no deadlock
  /\ (SimDone(s) => s.started \ released = {})                      \* everything started has finished
  /\ \A p \in s.started \ released : s.started \subseteq Sim(Ctx, Flags, released \cup {p}).started   \* monotone: nothing restarts
  /\ s.started \subseteq {b.calls[i].path : i \in 1..Len(b.calls)}  \* only resolvers the algorithm calls
  /\ (SimDone(s) =>
        /\ VEq(SimData(s), b.data)                                  \* schedule/config independent data
        /\ {n.at : n \in VisibleNulls(SimNulls(s))} = {n.at : n \in VisibleNulls(b.nulls)}
        /\ \A n \in VisibleNulls(SimNulls(s)) : n.why # {} /\ n.why \subseteq {e.path : e \in s.errs}
        /\ s.errs \subseteq b.errs)

\* C09: mutation roots one after the other
RootKeys == LET g == Collect(Ctx, RootType(Ctx), <<Ctx.op>>) IN [i \in 1..Len(g) |-> g[i][1]]
RootDone(i) ==
  \* root i is complete iff simulating only roots 1..i is Done; expressed through started:
  \* nothing under root i is pending
  ~\E p \in Pending : p[1] = RootKeys[i]
R1_Serial == (phase = "done" /\ nodes[pick.op].optype = "mutation") =>
  \A i, j \in 1..Len(RootKeys) :
     (i < j /\ \E p \in CurSim.started : p[1] = RootKeys[j]) =>
        /\ RootDone(i)
        /\ \A p \in CurSim.started : p[1] = RootKeys[i] => p \in released

Termination == (phase = "done") ~> (phase = "done" /\ SimDone(CurSim))

EmitS == (phase = "done" /\ SimDone(CurSim)) =>
  LET s == CurSim
      b == BigStep(Ctx) IN
  PrintT(ToJson([kind |-> "case", nodes |-> nodes, op |-> pick.op,
                 given |-> PairsOf(pick.given), overlay |-> PairsOf(pick.overlay),
                 seq |-> SeqFields, lconc |-> LConc,
                 init |-> Sim(Ctx, Flags, {}).started, hist |-> hist,
                 data |-> SimData(s), errs |-> b.errs, serrs |-> s.errs, nulls |-> SimNulls(s),
                 started |-> s.started, calls |-> b.calls]))
=============================================================================
