----------------------------- MODULE Trace_sched -----------------------------
(* R3 for C08 / C09: executions of the real engine under schedules chosen by the harness
   (not by TLC), on documents too large to enumerate, are validated against the
   scheduler specification.  A record carries the request (node table, operation, coerced
   variables, resolver data overlay), the concurrency flags and the observed events:
       events[l] = [p |-> the resolver whose await was satisfied, pending |-> the resolvers
                    suspended at the next idle point]
   plus the initial pending set and the projected final response.  The trace actions
   reuse Sched!Sim: TRelease is enabled only if the released resolver is pending in the
   specification and the observed pending set afterwards equals the specification's;
   TRespond only if the specification is Done and its data / explained nulls agree.      *)
EXTENDS Sched, SExec, Json, IOUtils, TLCExt

All == ndJsonDeserialize(IOEnv.TRACE_FILE)

VARIABLES i, l, released, strict
tvars == <<i, l, released, strict>>

PairsToFun(ps) == [x \in {ps[k][1] : k \in 1..Len(ps)} |-> ps[CHOOSE k \in 1..Len(ps) : ps[k][1] = x][2]]
CtxOf(rec) == [nodes |-> rec.nodes, op |-> rec.op, vars |-> PairsToFun(rec.vars), overlay |-> PairsToFun(rec.overlay)]
FlagsOf(rec) == [seq |-> SeqToSet(rec.seq), lconc |-> rec.lconc]
SimAt(rec, rel) == Sim(CtxOf(rec), FlagsOf(rec), rel)
Rec == All[i]
\* every resolver instance the execution algorithm calls for this request
CallPaths(rec) == LET b == BigStep(CtxOf(rec)) IN {b.calls[k].path : k \in 1..Len(b.calls)}

(* Two levels.  ACCEPTANCE (the verdict) only demands what C08 / C09 state: every released
   resolver is an instance the algorithm calls, released once; the final data is the
   big-step data (hence the same for every schedule and every concurrency setting); every
   visible null is explained; nothing is left over; for mutations the roots are serial.
   CONFORMANCE (`strict`, reported as coverage) additionally demands that the observed pending
   sets are exactly those of Sched!Sim - the implementation follows the model's grain.      *)
TInit == i \in 1..Len(All) /\ l = 0 /\ released = {} /\ strict = TRUE
TStart == /\ l = 0
          /\ SeqToSet(Rec.init) \subseteq CallPaths(Rec)
          /\ strict' = (SeqToSet(Rec.init) = SimAt(Rec, {}).started)
          /\ l' = 1 /\ UNCHANGED <<i, released>>
TRelease == /\ l >= 1 /\ l <= Len(Rec.events)
            /\ LET p == Rec.events[l].p IN
               /\ p \in CallPaths(Rec) \ released
               /\ SeqToSet(Rec.events[l].pending) \subseteq CallPaths(Rec) \ (released \cup {p})
               /\ released' = released \cup {p}
               /\ strict' = (strict /\ p \in SimAt(Rec, released).started \ released
                                    /\ SeqToSet(Rec.events[l].pending) = SimAt(Rec, released').started \ released')
            /\ l' = l + 1 /\ UNCHANGED i
\* the recorded data cannot tell an enum value from a string: compare with enum leaves read as strings
RECURSIVE AsWire(_)
AsWire(v) == IF v.t = "E" THEN Str(v.v)
             ELSE IF v.t = "L" THEN Lst([k \in 1..Len(v.v) |-> AsWire(v.v[k])])
             ELSE IF v.t = "O" THEN Obj([k \in 1..Len(v.v) |-> <<v.v[k][1], AsWire(v.v[k][2])>>])
             ELSE v
VisibleN(ns) == {n \in ns : ~\E m \in ns : m.at # n.at /\ IsPrefixPath(m.at, n.at)}
\* C09: at every idle point at most one mutation root has resolvers in flight, roots entered in document order
RootOrder(rec) == LET g == Collect(CtxOf(rec), RootType(CtxOf(rec)), <<rec.op>>) IN [k \in 1..Len(g) |-> g[k][1]]
RootIdx(rec, key) == CHOOSE k \in 1..Len(RootOrder(rec)) : RootOrder(rec)[k] = key
SerialOK(rec) ==
  rec.nodes[rec.op].optype = "mutation" =>
    /\ Cardinality({p[1] : p \in SeqToSet(rec.init)}) <= 1
    /\ \A m \in 1..Len(rec.events) : Cardinality({p[1] : p \in SeqToSet(rec.events[m].pending)}) <= 1
    /\ \A m, n \in 1..Len(rec.events) : m < n => RootIdx(rec, rec.events[m].p[1]) <= RootIdx(rec, rec.events[n].p[1])
TRespond == /\ l = Len(Rec.events) + 1
            /\ LET b == BigStep(CtxOf(Rec)) IN
               /\ VEq(AsWire(b.data), Rec.data)
               /\ SeqToSet(Rec.errpaths) \subseteq {e.path : e \in b.errs}
               /\ \A n \in VisibleN(b.nulls) : n.why \cap SeqToSet(Rec.errpaths) # {}
               /\ ~Rec.leftover
               /\ SerialOK(Rec)
            /\ strict' = (strict /\ SimDone(SimAt(Rec, released)))
            /\ l' = l + 1 /\ UNCHANGED <<i, released>>
TNext == TStart \/ TRelease \/ TRespond
TSpec == TInit /\ [][TNext]_tvars

\* per-record progress register (highest l reached) and conformance register
Progress == /\ TLCSet(i, IF TLCGet(i) < l THEN l ELSE TLCGet(i))
            /\ (l = Len(Rec.events) + 2 => TLCSet(Len(All) + i, IF strict THEN 1 ELSE 0))
ASSUME \A k \in 1..(2 * Len(All)) : TLCSet(k, 0)

\* which clause fails at the point where record k got stuck
Stuck(k) ==
  LET rec == All[k]
      at == TLCGet(k)
      rel == {rec.events[m].p : m \in 1..(IF at = 0 THEN 0 ELSE at - 1)} IN
  IF at = 0 THEN "initial-pending-not-callable"
  ELSE IF at <= Len(rec.events) THEN
       (IF rec.events[at].p \in rel THEN "resolver-released-twice" ELSE "resolver-the-algorithm-never-calls")
  ELSE LET b == BigStep(CtxOf(rec)) IN
       IF ~VEq(AsWire(b.data), rec.data) THEN "data"
       ELSE IF rec.leftover THEN "resolvers-or-tasks-left-over"
       ELSE IF ~SerialOK(rec) THEN "mutation-roots-not-serial"
       ELSE "errors"
Verdicts == \A k \in 1..Len(All) :
   IF TLCGet(k) = Len(All[k].events) + 2
   THEN PrintT(ToJson([kind |-> "verdict", tid |-> All[k].tid, ok |-> TRUE, clause |-> IF TLCGet(Len(All) + k) = 1 THEN "" ELSE "accepted-but-not-model-conformant"]))
   ELSE PrintT(ToJson([kind |-> "verdict", tid |-> All[k].tid, ok |-> FALSE, clause |-> Stuck(k)]))
=============================================================================
