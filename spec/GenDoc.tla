------------------------------- MODULE GenDoc -------------------------------
(* Generator of valid executable documents: canonical right-most-path insertion
   into the pre-order node table (each tree is built exactly once), from a
   configurable alphabet.  Guards keep the generator inside the language of valid
   documents (C06): fields exist, leaf/composite selections, possible fragment
   spreads, fragments defined / used / acyclic, variables defined / used, unique
   names, directives in legal places, mergeable fields.                           *)
EXTENDS GQL

CONSTANTS MaxSel,      \* max number of selection nodes (F, I, S) in the document
          MaxDepth,    \* max nesting depth of selections inside a definition
          MaxFrags,    \* max number of fragment definitions
          MaxOps,      \* max number of operations
          OpTypes,     \* allowed operation types
          FieldAlpha,  \* type name -> set of field names the generator may select
          Aliases,     \* set of aliases ("" = none)
          Conds,       \* type conditions allowed for inline fragments ("" = none) and fragment definitions
          DirOpts,     \* set of directive sequences a node may carry
          ArgOpts,     \* field name -> set of argument sequences (for fields with arguments)
          VarTypes,    \* variable name -> [type, hasDefault, default]
          VarVals      \* variable name -> set of values that may be supplied (Absent allowed)

VARIABLES nodes, phase, pick
gvars == <<nodes, phase, pick>>

NoLit == [t |-> "null", v |-> 0]
Mk(k, parent, name, alias, cond, args, dirs, optype, ptype) ==
  [k |-> k, parent |-> parent, name |-> name, alias |-> alias, cond |-> cond, args |-> args,
   dirs |-> dirs, vdefs |-> <<>>, optype |-> optype, ptype |-> ptype]

IsSel(n) == n.k \in {"F", "I", "S"}
NSel(ns) == Cardinality({i \in 1..Len(ns) : IsSel(ns[i])})
NOps(ns) == Cardinality({i \in 1..Len(ns) : ns[i].k = "OP"})
NFrags(ns) == Cardinality({i \in 1..Len(ns) : ns[i].k = "FRAG"})

\* type in whose scope the children of node i sit
ChildScope(ns, i) ==
  LET n == ns[i] IN
  IF n.k = "OP" THEN Roots[n.optype]
  ELSE IF n.k = "FRAG" THEN n.cond
  ELSE IF n.k = "I" THEN (IF n.cond = "" THEN n.ptype ELSE n.cond)
  ELSE IF n.k = "F" THEN Named(FieldDef(n.ptype, n.name).type)
  ELSE ""

NeedsChildren(ns, i) ==
  LET n == ns[i] IN
  IF n.k \in {"OP", "FRAG", "I"} THEN TRUE
  ELSE IF n.k = "F" THEN IsComposite(ChildScope(ns, i))
  ELSE FALSE

RECURSIVE DepthOf(_, _)
DepthOf(ns, i) == IF ns[i].parent = 0 THEN 0 ELSE 1 + DepthOf(ns, ns[i].parent)

RECURSIVE RightPath(_, _)
RightPath(ns, k) == IF k = 0 THEN {} ELSE {k} \cup RightPath(ns, ns[k].parent)

\* nodes that may still receive a child: on the right-most path, able to have children,
\* and such that closing everything to their right leaves no childless composite
OpenParents(ns) ==
  IF ns = <<>> THEN {}
  ELSE LET last == Len(ns) IN
       { k \in RightPath(ns, last) :
           /\ NeedsChildren(ns, k)
           /\ DepthOf(ns, k) < MaxDepth
           /\ (IF k = last THEN TRUE ELSE ~NeedsChildren(ns, last)) }

CanClose(ns) == IF ns = <<>> THEN TRUE ELSE ~NeedsChildren(ns, Len(ns))

OpNames   == <<"Q1", "Q2", "Q3">>
FragNames == <<"F1", "F2", "F3">>

Init == nodes = <<>> /\ phase = "build" /\ pick = [op |-> 0]

\* Canonical order: operations first, then fragments in order of first reference (the
\* harness permutes the definitions when rendering, so "defined after / before use"
\* are both exercised); fragment names are introduced in order F1, F2, ...
RefNames(ns) == {ns[i].name : i \in {j \in 1..Len(ns) : ns[j].k = "S"}}

AddOp ==
  /\ phase = "build" /\ CanClose(nodes) /\ NOps(nodes) < MaxOps /\ NFrags(nodes) = 0
  /\ \E ot \in OpTypes :
        \* anonymous only if it stays the only operation; names are assigned in order
        \E anon \in (IF MaxOps = 1 THEN {TRUE, FALSE} ELSE {FALSE}) :
          nodes' = Append(nodes, Mk("OP", 0, IF anon THEN "" ELSE OpNames[NOps(nodes) + 1], "", "", <<>>, <<>>, ot, ""))
  /\ UNCHANGED <<phase, pick>>

AddFrag ==
  /\ phase = "build" /\ CanClose(nodes) /\ NFrags(nodes) < MaxFrags
  /\ FragNames[NFrags(nodes) + 1] \in RefNames(nodes)
  /\ \E c \in Conds \ {""} :
        nodes' = Append(nodes, Mk("FRAG", 0, FragNames[NFrags(nodes) + 1], "", c, <<>>, <<>>, "", ""))
  /\ UNCHANGED <<phase, pick>>

FieldChoices(sc) ==
  (IF HasFields(sc) THEN FieldAlpha[sc] \cap FieldNames(sc) ELSE {})
  \cup (IF "__typename" \in FieldAlpha[sc] THEN {"__typename"} ELSE {})

AddField ==
  /\ phase = "build" /\ NSel(nodes) < MaxSel
  /\ \E par \in OpenParents(nodes) :
       LET sc == ChildScope(nodes, par) IN
       \E f \in FieldChoices(sc), al \in Aliases, ds \in DirOpts :
         \E as \in (IF f \in DOMAIN ArgOpts THEN ArgOpts[f] ELSE {<<>>}) :
           /\ al # f
           /\ nodes' = Append(nodes, Mk("F", par, f, al, "", as, ds, "", sc))
  /\ UNCHANGED <<phase, pick>>

AddInline ==
  /\ phase = "build" /\ NSel(nodes) < MaxSel
  /\ \E par \in OpenParents(nodes) :
       LET sc == ChildScope(nodes, par) IN
       \E c \in Conds, ds \in DirOpts :
         /\ (IF c = "" THEN TRUE ELSE IsComposite(c) /\ Possible(c) \cap Possible(sc) # {})
         /\ nodes' = Append(nodes, Mk("I", par, "", "", c, <<>>, ds, "", sc))
  /\ UNCHANGED <<phase, pick>>

AddSpread ==
  /\ phase = "build" /\ NSel(nodes) < MaxSel /\ MaxFrags > 0
  /\ \E par \in OpenParents(nodes) :
       LET sc == ChildScope(nodes, par) IN
       \E j \in 1..MaxFrags, ds \in DirOpts :
         /\ j <= Cardinality(RefNames(nodes)) + 1
         /\ nodes' = Append(nodes, Mk("S", par, FragNames[j], "", "", <<>>, ds, "", sc))
  /\ UNCHANGED <<phase, pick>>

------------------------------------------------------------------------------
(* Whole-document validity, checked when the document is finished.               *)
Ids(ns) == 1..Len(ns)
RECURSIVE DefOf(_, _)
DefOf(ns, i) == IF ns[i].parent = 0 THEN i ELSE DefOf(ns, ns[i].parent)

SpreadsIn(ns, d) == {ns[i].name : i \in {j \in Ids(ns) : ns[j].k = "S" /\ DefOf(ns, j) = d}}
FragIdsOf(ns, names) == {i \in Ids(ns) : ns[i].k = "FRAG" /\ ns[i].name \in names}

\* fragments reachable from definition d (transitively)
RECURSIVE ReachR(_, _, _)
ReachR(ns, frontier, seen) ==
  IF frontier = {} THEN seen
  ELSE LET nxt == UNION {SpreadsIn(ns, f) : f \in FragIdsOf(ns, frontier)} IN
       ReachR(ns, nxt \ (seen \cup frontier), seen \cup frontier)
Reach(ns, d) == ReachR(ns, SpreadsIn(ns, d), {})

DefinedFragNames(ns) == {ns[i].name : i \in {j \in Ids(ns) : ns[j].k = "FRAG"}}

RECURSIVE VarsOfLit(_)
VarsOfLit(l) == IF l.t = "var" THEN {l.v}
                ELSE IF l.t = "list" THEN UNION {VarsOfLit(l.v[i]) : i \in 1..Len(l.v)}
                ELSE IF l.t = "obj" THEN UNION {VarsOfLit(l.v[i][2]) : i \in 1..Len(l.v)}
                ELSE {}
VarsOfNode(n) == UNION ({VarsOfLit(n.args[i].val) : i \in 1..Len(n.args)} \cup {VarsOfLit(n.dirs[i].val) : i \in 1..Len(n.dirs)})
VarsInDef(ns, d) == UNION {VarsOfNode(ns[i]) : i \in {j \in Ids(ns) : DefOf(ns, j) = d}}
VarsUsedBy(ns, op) == VarsInDef(ns, op) \cup UNION {VarsInDef(ns, f) : f \in FragIdsOf(ns, Reach(ns, op))}

FieldIds(ns) == {i \in Ids(ns) : ns[i].k = "F"}
\* response keys of the field ancestors of node i inside its definition
RECURSIVE AncKeys(_, _)
AncKeys(ns, i) == IF ns[i].parent = 0 THEN <<>>
                  ELSE LET p == ns[i].parent IN
                       IF ns[p].k = "F" THEN Append(AncKeys(ns, p), Key(ns[p])) ELSE AncKeys(ns, p)
\* can the two field nodes end up in the same merged selection set?  Exact for nodes of operations (same
\* operation and same chain of parent response keys); conservative (TRUE) as soon as a fragment definition is involved.
MayMerge(ns, i, j) ==
  LET di == DefOf(ns, i)
      dj == DefOf(ns, j) IN
  IF ns[di].k = "OP" /\ ns[dj].k = "OP" THEN di = dj /\ AncKeys(ns, i) = AncKeys(ns, j) ELSE TRUE
\* FieldsInSetCanMerge, sufficient form: fields that may merge under one response key have the same name,
\* the same arguments and the same declared type (so sub-selections merge recursively under the same rule)
Mergeable(ns) ==
  \A i, j \in FieldIds(ns) :
     (i < j /\ Key(ns[i]) = Key(ns[j]) /\ MayMerge(ns, i, j)) =>
        /\ ns[i].name = ns[j].name
        /\ ns[i].args = ns[j].args
        /\ FieldDef(ns[i].ptype, ns[i].name).type = FieldDef(ns[j].ptype, ns[j].name).type

ValidDoc(ns) ==
  /\ ns # <<>> /\ CanClose(ns)
  /\ NOps(ns) >= 1
  \* every spread names a defined fragment that can apply where it is spread
  /\ \A i \in Ids(ns) : ns[i].k = "S" =>
        /\ ns[i].name \in DefinedFragNames(ns)
        /\ Possible(ns[FragId(ns, ns[i].name)].cond) \cap Possible(ns[i].ptype) # {}
  \* every fragment is used by some operation, no fragment reaches itself
  /\ \A f \in Ids(ns) : ns[f].k = "FRAG" =>
        /\ \E o \in Ids(ns) : ns[o].k = "OP" /\ ns[f].name \in Reach(ns, o)
        /\ ns[f].name \notin Reach(ns, f)
  /\ Mergeable(ns)
  \* a subscription operation has exactly one root field (kept simple: one selection, a field)
  /\ \A o \in Ids(ns) : (ns[o].k = "OP" /\ ns[o].optype = "subscription") =>
        LET ch == Children(ns, o) IN Len(ch) = 1 /\ ns[ch[1]].k = "F" /\ ns[ch[1]].dirs = <<>>

\* operation variable definitions = exactly the variables the operation uses
VarOrder == <<"v", "w", "n", "m", "x", "y", "i">>
VDefsFor(ns, op) ==
  LET used == VarsUsedBy(ns, op)
      sq == SelectSeq(VarOrder, LAMBDA x : x \in used) IN
  [i \in 1..Len(sq) |-> [name |-> sq[i], type |-> VarTypes[sq[i]].type,
                         hasDefault |-> VarTypes[sq[i]].hasDefault, default |-> VarTypes[sq[i]].default]]

WithVDefs(ns) == [i \in 1..Len(ns) |-> IF ns[i].k = "OP" THEN [ns[i] EXCEPT !.vdefs = VDefsFor(ns, i)] ELSE ns[i]]

Finish ==
  /\ phase = "build" /\ ValidDoc(nodes)
  /\ nodes' = WithVDefs(nodes)
  /\ phase' = "pick" /\ UNCHANGED pick

\* coerced variable values for an assignment `given` (function on a subset of the used names)
CoercedVars(ns, op, given) ==
  LET used == VarsUsedBy(ns, op)
      has == {x \in used : x \in DOMAIN given \/ VarTypes[x].hasDefault} IN
  [x \in has |-> IF x \in DOMAIN given THEN given[x] ELSE LitValue([vars |-> <<>>], VarTypes[x].default)]

\* all assignments: each used variable is either given one of its values or left out
\* (left out only if nullable or defaulted)
Assignments(ns, op) ==
  LET used == VarsUsedBy(ns, op) IN
  UNION { [S -> UNION {VarVals[x] : x \in S}] : S \in SUBSET used }

GoodAssignment(ns, op, g) ==
  LET used == VarsUsedBy(ns, op) IN
  /\ \A x \in DOMAIN g : g[x] \in VarVals[x]
  /\ \A x \in used \ DOMAIN g : ~IsNN(VarTypes[x].type) \/ VarTypes[x].hasDefault
  /\ \A x \in DOMAIN g : IsNN(VarTypes[x].type) => ~IsNull(g[x])
=============================================================================
