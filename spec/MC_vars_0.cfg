SPECIFICATION Spec
CONSTANTS
  MODE = "vars"
  TLO = 1
  THI = 16
INVARIANT R1_Vars
INVARIANT EmitVars
CHECK_DEADLOCK FALSE
