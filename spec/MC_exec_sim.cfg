SPECIFICATION Spec
CONSTANTS
  Types <- TypesExec
  Roots <- RootsExec
  MaxSel = 10
  MaxDepth = 4
  MaxFrags = 2
  MaxOps = 2
  OpTypes = {"query", "mutation"}
  FieldAlpha <- AlphaAll
  Aliases = {"", "z"}
  Conds = {"", "T", "P", "A", "B", "C", "U", "Query"}
  DirOpts <- DirsBoth
  ArgOpts <- ArgOptsStd
  VarTypes <- VarTypesStd
  VarVals <- VarValsStd
  MaxOverlay = 0
  TRSets <- NoTR
  FalsyOverlays = FALSE
INVARIANT R1_Exec
INVARIANT Emit
CHECK_DEADLOCK FALSE
