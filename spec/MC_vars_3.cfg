SPECIFICATION Spec
CONSTANTS
  MODE = "vars"
  TLO = 45
  THI = 52
INVARIANT R1_Vars
INVARIANT EmitVars
CHECK_DEADLOCK FALSE
