SPECIFICATION Spec
CONSTANTS
  Types <- TypesExec
  Roots <- RootsExec
  MaxSel = 7
  MaxDepth = 3
  MaxFrags = 2
  MaxOps = 1
  OpTypes = {"query"}
  FieldAlpha <- AlphaSimF
  Aliases = {""}
  Conds = {"T", "Query"}
  DirOpts <- DirsBoth
  ArgOpts <- ArgOptsNone
  VarTypes <- VarTypesStd
  VarVals <- VarValsStd
  MaxOverlay = 0
  TRSets <- NoTR
  FalsyOverlays = FALSE
INVARIANT R1_Exec
INVARIANT Emit
CHECK_DEADLOCK FALSE
