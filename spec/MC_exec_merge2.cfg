SPECIFICATION Spec
CONSTANTS
  Types <- TypesExec
  Roots <- RootsExec
  MaxSel = 5
  MaxDepth = 3
  MaxFrags = 1
  MaxOps = 1
  OpTypes = {"query"}
  FieldAlpha <- AlphaMerge2
  Aliases = {""}
  Conds = {"T"}
  DirOpts <- NoDirs
  ArgOpts <- ArgOptsNone
  VarTypes <- VarTypesStd
  VarVals <- VarValsStd
  MaxOverlay = 0
  TRSets <- NoTR
  FalsyOverlays = FALSE
INVARIANT R1_Exec
INVARIANT Emit
CHECK_DEADLOCK FALSE
