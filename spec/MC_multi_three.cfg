SPECIFICATION SpecM
CONSTANTS
  Types <- TypesExec
  Roots <- RootsExec
  MaxSel = 1
  MaxDepth = 3
  MaxFrags = 0
  MaxOps = 1
  OpTypes = {"query"}
  FieldAlpha <- AlphaMultiT
  Aliases = {""}
  Conds = {""}
  DirOpts <- NoDirs
  ArgOpts <- ArgOptsNone
  VarTypes <- VarTypesStd
  VarVals <- VarValsStd
  MaxOverlay = 0
  TRSets <- NoTR
  FalsyOverlays = FALSE
  MaxFaults = 1
  SeqFields = {}
  LConc = TRUE
  NReq = 3
  OverlayKinds <- OKinds
INVARIANT R1_Multi
INVARIANT EmitM
CHECK_DEADLOCK FALSE
