SPECIFICATION SpecM
CONSTANTS
  Types <- TypesExec
  Roots <- RootsExec
  MaxSel = 3
  MaxDepth = 2
  MaxFrags = 0
  MaxOps = 1
  OpTypes = {"query"}
  FieldAlpha <- AlphaMultiN
  Aliases = {""}
  Conds = {""}
  DirOpts <- DirsVarOnly
  ArgOpts <- ArgOptsNone
  VarTypes <- VarTypesStd
  VarVals <- VarValsSmall
  MaxOverlay = 0
  TRSets <- NoTR
  FalsyOverlays = FALSE
  MaxFaults = 1
  SeqFields = {}
  LConc = TRUE
  NReq = 2
  OverlayKinds = {}
INVARIANT R1_Multi
INVARIANT EmitM
CHECK_DEADLOCK FALSE
