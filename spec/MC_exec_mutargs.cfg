SPECIFICATION Spec
CONSTANTS
  Types <- TypesExec
  Roots <- RootsExec
  MaxSel = 4
  MaxDepth = 3
  MaxFrags = 0
  MaxOps = 1
  OpTypes = {"mutation"}
  FieldAlpha <- AlphaMutArgs
  Aliases = {"", "z"}
  Conds = {""}
  DirOpts <- NoDirs
  ArgOpts <- ArgOptsFew
  VarTypes <- VarTypesStd
  VarVals <- VarValsStd
  MaxOverlay = 0
  TRSets <- NoTR
  FalsyOverlays = FALSE
INVARIANT R1_Exec
INVARIANT Emit
CHECK_DEADLOCK FALSE
