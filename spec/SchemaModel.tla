----------------------------- MODULE SchemaModel -----------------------------
(* Abstract schema models (C11 / C12): an SDL document is a sequence of PIECES - type
   definitions, `extend` pieces, directive definitions, the `schema` block - exactly
   as a user writes them.  Normalise merges the extensions; Image is what
   introspection must report; WellFormed is the conjunction of the schema rules the
   engine checks; Variations and Breaks are the generator / violation catalogues.

   Piece  = [ext, kind, name, fields, ifaces, members, values, inputs, locs, args, roots, impl]
     kind \in {"OBJECT","INTERFACE","UNION","ENUM","SCALAR","INPUT","DIRECTIVE","SCHEMA"}
   Field  = [name, type, args, dep, reason, hidden]       dep: deprecated?  hidden: @nonIntrospectable
   Arg    = [name, type, hasDefault, default]             (arguments and input fields)
   EVal   = [name, dep, reason]                                                         *)
EXTENDS Naturals, Sequences, FiniteSets, TLC

Nm(n) == <<n>>
Nn(t) == <<"NN">> \o t
Li(t) == <<"L">> \o t
NamedOf(t) == t[Len(t)]
NoLit == [t |-> "null", v |-> 0]
L(t, v) == [t |-> t, v |-> v]

Fd(n, t, as)        == [name |-> n, type |-> t, args |-> as, dep |-> FALSE, reason |-> "", hidden |-> FALSE]
Ar(n, t)            == [name |-> n, type |-> t, hasDefault |-> FALSE, default |-> NoLit]
ArD(n, t, d)        == [name |-> n, type |-> t, hasDefault |-> TRUE, default |-> d]
EV(n)               == [name |-> n, dep |-> FALSE, reason |-> ""]
Piece(ext, kind, name) == [ext |-> ext, kind |-> kind, name |-> name, tdirs |-> <<>>, fields |-> <<>>, ifaces |-> <<>>, members |-> <<>>, values |-> <<>>,
                           inputs |-> <<>>, locs |-> <<>>, args |-> <<>>, roots |-> <<>>, impl |-> "ok"]

BuiltinScalars == {"Int", "Float", "String", "Boolean", "ID", "Date", "Time", "DateTime"}
BuiltinDirectives == {"skip", "include", "deprecated", "nonIntrospectable"}
MetaTypes == {"__Schema", "__Type", "__Field", "__InputValue", "__EnumValue", "__TypeKind", "__Directive", "__DirectiveLocation"}

SeqSet(sq) == {sq[i] : i \in 1..Len(sq)}
Idxs(sq) == 1..Len(sq)
NamesOf(sq) == {sq[i].name : i \in Idxs(sq)}

\* ---- the base model: every type kind, wrappers to depth 3, defaults of every value kind -------
BasePieces == <<
  [Piece(FALSE, "SCALAR", "Custom") EXCEPT !.impl = "ok"],
  [Piece(FALSE, "ENUM", "Color") EXCEPT !.values = <<EV("RED"), [EV("GREEN") EXCEPT !.dep = TRUE, !.reason = "old"], EV("BLUE"),
                                                          \* explicitly empty / explicitly null reasons ("<empty>", "<null>" are markers; "" = no reason given)
                                                          [EV("GREY") EXCEPT !.dep = TRUE, !.reason = "<empty>"], [EV("BEIGE") EXCEPT !.dep = TRUE, !.reason = "<null>"]>>],
  [Piece(FALSE, "INPUT", "Filter") EXCEPT !.inputs = << ArD("limit", Nm("Int"), L("int", 10)), Ar("tags", Li(Nn(Nm("String")))), Ar("must", Nn(Nm("Boolean"))),
                                                        ArD("color", Nm("Color"), L("enum", "RED")), Ar("sub", Nm("Filter")),
                                                        ArD("ratio", Nm("Float"), L("float", "1.5")), ArD("note", Nm("String"), L("str", "a b")),
                                                        ArD("quoted", Nm("String"), L("str", "say \"hi\" \\ bye")),
                                                        \* a string that ends (and begins) with an escaped quote
                                                        ArD("endq", Nm("String"), L("str", "\"use\" \"B\"")),
                                                        \* an explicit null default is a default
                                                        ArD("maybe", Nm("Int"), L("null", 0)) >>],
  [Piece(FALSE, "INTERFACE", "Node") EXCEPT !.fields = << Fd("id", Nn(Nm("ID")), <<>>), Fd("label", Nm("String"), <<ArD("up", Nm("Boolean"), L("bool", TRUE))>>) >>],
  [Piece(FALSE, "OBJECT", "User") EXCEPT !.ifaces = <<"Node">>,
        !.fields = << Fd("id", Nn(Nm("ID")), <<>>), Fd("label", Nm("String"), <<ArD("up", Nm("Boolean"), L("bool", TRUE))>>),
                      Fd("friends", Nn(Li(Nn(Nm("User")))), <<ArD("first", Nm("Int"), L("int", 5)), ArD("after", Nm("ID"), L("null", 0)), Ar("filter", Nm("Filter")),
                                                              ArD("ids", Li(Nm("ID")), L("list", <<L("int", 1), L("str", "b")>>)),
                                                              ArD("f", Nm("Filter"), L("obj", << <<"must", L("bool", TRUE)>>, <<"tags", L("list", <<L("str", "x")>>)>> >>))>>),
                      [Fd("old", Nm("Int"), <<>>) EXCEPT !.dep = TRUE, !.reason = "use new"],
                      [Fd("older", Nm("Int"), <<>>) EXCEPT !.dep = TRUE],
                      [Fd("oldest", Nm("Int"), <<>>) EXCEPT !.dep = TRUE, !.reason = "<empty>"],
                      [Fd("ancient", Nm("Int"), <<>>) EXCEPT !.dep = TRUE, !.reason = "<null>"],
                      [Fd("secret", Nm("String"), <<>>) EXCEPT !.hidden = TRUE],
                      \* hidden AND carrying another directive
                      [Fd("ghost", Nm("String"), <<>>) EXCEPT !.hidden = TRUE, !.dep = TRUE, !.reason = "gone"],
                      Fd("grid", Li(Li(Nn(Nm("Custom")))), <<>>), Fd("fav", Nm("Color"), <<>>) >>],
  [Piece(FALSE, "OBJECT", "Post") EXCEPT !.ifaces = <<"Node">>,
        !.fields = << Fd("id", Nn(Nm("ID")), <<>>), Fd("label", Nm("String"), <<ArD("up", Nm("Boolean"), L("bool", TRUE))>>), Fd("author", Nm("User"), <<>>) >>],
  [Piece(FALSE, "UNION", "Item") EXCEPT !.members = <<"User", "Post">>],
  \* a directive that exists in the SDL only (no implementation is registered for it)
  [Piece(FALSE, "DIRECTIVE", "key") EXCEPT !.locs = <<"OBJECT">>, !.impl = "none",
        !.args = << Ar("fields", Nn(Nm("String"))), ArD("resolvable", Nm("Boolean"), L("bool", TRUE)) >>],
  [Piece(FALSE, "DIRECTIVE", "tag") EXCEPT !.locs = <<"FIELD_DEFINITION", "OBJECT", "SCHEMA">>, !.args = << ArD("n", Nm("Int"), L("int", 1)), Ar("s", Li(Nm("String"))), ArD("z", Nm("String"), L("null", 0)) >>],
  [Piece(FALSE, "OBJECT", "Query") EXCEPT !.fields = << Fd("node", Nm("Node"), <<Ar("id", Nn(Nm("ID")))>>), Fd("items", Li(Nm("Item")), <<>>), Fd("me", Nm("User"), <<>>) >>],
  [Piece(FALSE, "OBJECT", "Mut") EXCEPT !.fields = << Fd("touch", Nm("Boolean"), <<Ar("when", Nm("DateTime"))>>) >>],
  [Piece(FALSE, "SCHEMA", "") EXCEPT !.roots = << <<"query", "Query">>, <<"mutation", "Mut">> >>]
>>

------------------------------------------------------------------------------
(* Normalise: merge every `extend` piece into the definition of the same name/kind    *)
BaseIdx(ps, i) == LET S == {j \in Idxs(ps) : ~ps[j].ext /\ ps[j].name = ps[i].name /\ ps[j].kind = ps[i].kind} IN IF S = {} THEN 0 ELSE CHOOSE j \in S : TRUE
ExtsOf(ps, j) == SelectSeq([i \in Idxs(ps) |-> i], LAMBDA i : ps[i].ext /\ ps[i].name = ps[j].name /\ ps[i].kind = ps[j].kind)
RECURSIVE MergeAll(_, _, _)
MergeAll(p, ps, exts) ==
  IF exts = <<>> THEN p
  ELSE LET e == ps[Head(exts)] IN
       MergeAll([p EXCEPT !.fields = @ \o e.fields, !.ifaces = @ \o e.ifaces, !.members = @ \o e.members, !.values = @ \o e.values,
                          !.inputs = @ \o e.inputs, !.roots = @ \o e.roots], ps, Tail(exts))
Normalise(ps) == LET bases == SelectSeq([i \in Idxs(ps) |-> i], LAMBDA i : ~ps[i].ext) IN
                 [k \in Idxs(bases) |-> MergeAll(ps[bases[k]], ps, ExtsOf(ps, bases[k]))]

Introspectable(ps) == ~\E i \in Idxs(ps) : ps[i].kind = "SCHEMA" /\ "nonIntrospectable" \in SeqSet(ps[i].tdirs)
TypeKinds == {"OBJECT", "INTERFACE", "UNION", "ENUM", "SCALAR", "INPUT"}
TypePieces(n) == SelectSeq(n, LAMBDA p : p.kind \in TypeKinds)
TypeNamed(n, name) == LET S == {i \in Idxs(n) : n[i].kind \in TypeKinds /\ n[i].name = name} IN IF S = {} THEN 0 ELSE CHOOSE i \in S : TRUE
DeclaredTypeNames(n) == {n[i].name : i \in {j \in Idxs(n) : n[j].kind \in TypeKinds}}
KnownTypeNames(n) == DeclaredTypeNames(n) \cup BuiltinScalars
InputTypeNames(n) == BuiltinScalars \cup {n[i].name : i \in {j \in Idxs(n) : n[j].kind \in {"SCALAR", "ENUM", "INPUT"}}}
SchemaPiece(n) == LET S == {i \in Idxs(n) : n[i].kind = "SCHEMA"} IN IF S = {} THEN 0 ELSE CHOOSE i \in S : TRUE
RootOf(n, op) ==
  LET sp == SchemaPiece(n)
      dflt == IF op = "query" THEN "Query" ELSE IF op = "mutation" THEN "Mutation" ELSE "Subscription" IN
  IF sp = 0 THEN dflt
  ELSE LET S == {k \in Idxs(n[sp].roots) : n[sp].roots[k][1] = op} IN IF S = {} THEN dflt ELSE n[sp].roots[CHOOSE k \in S : TRUE][2]

------------------------------------------------------------------------------
(* Image: what __schema / __type must report for the normalised model n             *)
ArgImage(a) == [name |-> a.name, type |-> a.type, hasDefault |-> a.hasDefault, default |-> a.default]
FieldImage(f) == [name |-> f.name, type |-> f.type, args |-> {ArgImage(f.args[k]) : k \in Idxs(f.args)}, dep |-> f.dep, reason |-> f.reason]
Implementers(n, iface) == {n[i].name : i \in {j \in Idxs(n) : n[j].kind = "OBJECT" /\ iface \in SeqSet(n[j].ifaces)}}
TypeImage(n, p) ==
  [name |-> p.name, kind |-> p.kind,
   fields |-> {FieldImage(p.fields[k]) : k \in {j \in Idxs(p.fields) : ~p.fields[j].hidden}},
   ifaces |-> SeqSet(p.ifaces),
   possible |-> IF p.kind = "INTERFACE" THEN Implementers(n, p.name) ELSE IF p.kind = "UNION" THEN SeqSet(p.members) ELSE {},
   values |-> {[name |-> p.values[k].name, dep |-> p.values[k].dep, reason |-> p.values[k].reason] : k \in Idxs(p.values)},
   inputs |-> {ArgImage(p.inputs[k]) : k \in Idxs(p.inputs)}]
Image(n) ==
  [types |-> {TypeImage(n, n[i]) : i \in {j \in Idxs(n) : n[j].kind \in TypeKinds}},
   builtinScalars |-> BuiltinScalars, metaTypes |-> MetaTypes,
   directives |-> {[name |-> n[i].name, locs |-> SeqSet(n[i].locs), args |-> {ArgImage(n[i].args[k]) : k \in Idxs(n[i].args)}] : i \in {j \in Idxs(n) : n[j].kind = "DIRECTIVE"}},
   builtinDirectives |-> BuiltinDirectives,
   query |-> RootOf(n, "query"),
   mutation |-> IF TypeNamed(n, RootOf(n, "mutation")) # 0 THEN RootOf(n, "mutation") ELSE "",
   subscription |-> IF TypeNamed(n, RootOf(n, "subscription")) # 0 THEN RootOf(n, "subscription") ELSE ""]

------------------------------------------------------------------------------
(* The checked schema rules, on the pieces ps (extension rules) and the normalised model n *)
NoDup(sq) == \A i, j \in Idxs(sq) : i # j => sq[i] # sq[j]
NoDupNames(sq) == \A i, j \in Idxs(sq) : i # j => sq[i].name # sq[j].name

W_TypesDefined(n) == \A i \in Idxs(n) :
   /\ \A k \in Idxs(n[i].fields) : NamedOf(n[i].fields[k].type) \in KnownTypeNames(n)
                                   /\ \A a \in Idxs(n[i].fields[k].args) : NamedOf(n[i].fields[k].args[a].type) \in KnownTypeNames(n)
   /\ \A k \in Idxs(n[i].inputs) : NamedOf(n[i].inputs[k].type) \in KnownTypeNames(n)
   /\ \A k \in Idxs(n[i].args) : NamedOf(n[i].args[k].type) \in KnownTypeNames(n)
W_InputTypes(n) == \A i \in Idxs(n) :
   /\ \A k \in Idxs(n[i].fields) : \A a \in Idxs(n[i].fields[k].args) :
         NamedOf(n[i].fields[k].args[a].type) \in KnownTypeNames(n) => NamedOf(n[i].fields[k].args[a].type) \in InputTypeNames(n)
   /\ \A k \in Idxs(n[i].inputs) : NamedOf(n[i].inputs[k].type) \in KnownTypeNames(n) => NamedOf(n[i].inputs[k].type) \in InputTypeNames(n)
   /\ \A k \in Idxs(n[i].args) : NamedOf(n[i].args[k].type) \in KnownTypeNames(n) => NamedOf(n[i].args[k].type) \in InputTypeNames(n)
\* is object field type ft acceptable where the interface declares it
RECURSIVE SubTypeOK(_, _, _)
SubTypeOK(n, ft, it) ==
  IF ft = it THEN TRUE
  ELSE IF ft[1] = "NN" THEN SubTypeOK(n, Tail(ft), it)
  ELSE IF it[1] = "NN" THEN FALSE
  ELSE IF it[1] = "L" THEN FALSE
  ELSE IF ft[1] = "L" THEN FALSE
  ELSE LET j == TypeNamed(n, it[1]) IN j # 0 /\ n[j].kind = "INTERFACE" /\ ft[1] \in Implementers(n, it[1])
FieldNamed(p, name) == LET S == {k \in Idxs(p.fields) : p.fields[k].name = name} IN IF S = {} THEN 0 ELSE CHOOSE k \in S : TRUE
ArgNamed(f, name) == LET S == {k \in Idxs(f.args) : f.args[k].name = name} IN IF S = {} THEN 0 ELSE CHOOSE k \in S : TRUE
W_Interfaces(n) == \A i \in Idxs(n) : n[i].kind = "OBJECT" => \A x \in SeqSet(n[i].ifaces) :
   LET j == TypeNamed(n, x) IN
   /\ j # 0 /\ n[j].kind = "INTERFACE"
   /\ \A k \in Idxs(n[j].fields) :
        LET ifd == n[j].fields[k]
            o == FieldNamed(n[i], ifd.name) IN
        /\ o # 0
        /\ SubTypeOK(n, n[i].fields[o].type, ifd.type)
        /\ \A a \in Idxs(ifd.args) : LET oa == ArgNamed(n[i].fields[o], ifd.args[a].name) IN oa # 0 /\ n[i].fields[o].args[oa].type = ifd.args[a].type
        /\ \A a \in Idxs(n[i].fields[o].args) : ArgNamed(ifd, n[i].fields[o].args[a].name) = 0 => n[i].fields[o].args[a].type[1] # "NN"
W_Roots(n) ==
  /\ TypeNamed(n, RootOf(n, "query")) # 0
  /\ \A op \in {"mutation", "subscription"} :
       LET sp == SchemaPiece(n) IN
       (sp # 0 /\ \E k \in Idxs(n[sp].roots) : n[sp].roots[k][1] = op) => TypeNamed(n, RootOf(n, op)) # 0
W_NonEmptyObjects(n) == \A i \in Idxs(n) : n[i].kind = "OBJECT" => n[i].fields # <<>>
W_UnionNotSelf(n) == \A i \in Idxs(n) : n[i].kind = "UNION" => n[i].name \notin SeqSet(n[i].members)
W_EnumUnique(n) == \A i \in Idxs(n) : n[i].kind = "ENUM" => NoDupNames(n[i].values)
W_DefsUnique(ps) == \A i, j \in Idxs(ps) : (i # j /\ ~ps[i].ext /\ ~ps[j].ext /\ ps[i].kind # "SCHEMA" /\ ps[j].kind # "SCHEMA") =>
                       ~(ps[i].name = ps[j].name /\ ((ps[i].kind = "DIRECTIVE") = (ps[j].kind = "DIRECTIVE")))
W_ScalarsImplemented(n) == \A i \in Idxs(n) : n[i].kind = "SCALAR" => n[i].impl = "ok"
W_HooksAwaitable(n) == \A i \in Idxs(n) : n[i].kind = "DIRECTIVE" => n[i].impl \in {"ok", "none"}
W_Extensions(ps) == \A i \in Idxs(ps) : ps[i].ext =>
   LET b == BaseIdx(ps, i)
       others == SelectSeq([j \in Idxs(ps) |-> j], LAMBDA j : j # i /\ ps[j].name = ps[i].name /\ ps[j].kind = ps[i].kind) IN
   /\ b # 0                                                                     \* known target of the right kind
   /\ \A j \in SeqSet(others) :
        /\ NamesOf(ps[i].fields) \cap NamesOf(ps[j].fields) = {}
        /\ NamesOf(ps[i].values) \cap NamesOf(ps[j].values) = {}
        /\ NamesOf(ps[i].inputs) \cap NamesOf(ps[j].inputs) = {}
        /\ SeqSet(ps[i].members) \cap SeqSet(ps[j].members) = {}
        /\ SeqSet(ps[i].ifaces) \cap SeqSet(ps[j].ifaces) = {}

SchemaRuleNames == <<"types-defined", "input-types", "interfaces", "roots", "non-empty-object", "union-self", "enum-unique", "definitions-unique",
                     "scalar-implemented", "hooks-awaitable", "extensions", "syntax">>
SHolds(r, ps) ==
  LET n == Normalise(ps) IN
  CASE r = "types-defined" -> W_TypesDefined(n)
    [] r = "input-types" -> W_InputTypes(n)
    [] r = "interfaces" -> W_Interfaces(n)
    [] r = "roots" -> W_Roots(n)
    [] r = "non-empty-object" -> W_NonEmptyObjects(n)
    [] r = "union-self" -> W_UnionNotSelf(n)
    [] r = "enum-unique" -> W_EnumUnique(n)
    [] r = "definitions-unique" -> W_DefsUnique(ps)
    [] r = "scalar-implemented" -> W_ScalarsImplemented(n)
    [] r = "hooks-awaitable" -> W_HooksAwaitable(n)
    [] r = "extensions" -> W_Extensions(ps)
    [] r = "syntax" -> \A i \in Idxs(ps) : ps[i].kind # "RAW"
WellFormed(ps) == \A k \in Idxs(SchemaRuleNames) : SHolds(SchemaRuleNames[k], ps)

------------------------------------------------------------------------------
(* Variations: well-formedness-preserving steps applied to the pieces               *)
PIdx(ps, name, kind) == CHOOSE i \in Idxs(ps) : ~ps[i].ext /\ ps[i].name = name /\ ps[i].kind = kind
Without(sq, k) == [j \in 1..(Len(sq) - 1) |-> IF j < k THEN sq[j] ELSE sq[j + 1]]
ExtPiece(kind, name) == Piece(TRUE, kind, name)

\* move member k of piece i into a fresh `extend` piece appended at the end
MoveField(ps, i, k)  == Append([ps EXCEPT ![i].fields = Without(@, k)], [ExtPiece(ps[i].kind, ps[i].name) EXCEPT !.fields = <<ps[i].fields[k]>>])
MoveValue(ps, i, k)  == Append([ps EXCEPT ![i].values = Without(@, k)], [ExtPiece(ps[i].kind, ps[i].name) EXCEPT !.values = <<ps[i].values[k]>>])
MoveInput(ps, i, k)  == Append([ps EXCEPT ![i].inputs = Without(@, k)], [ExtPiece(ps[i].kind, ps[i].name) EXCEPT !.inputs = <<ps[i].inputs[k]>>])
MoveMember(ps, i, k) == Append([ps EXCEPT ![i].members = Without(@, k)], [ExtPiece(ps[i].kind, ps[i].name) EXCEPT !.members = <<ps[i].members[k]>>])
MoveIface(ps, i, k)  == Append([ps EXCEPT ![i].ifaces = Without(@, k)], [ExtPiece(ps[i].kind, ps[i].name) EXCEPT !.ifaces = <<ps[i].ifaces[k]>>])

NewFields == { Fd("extra", Nm("String"), <<>>), Fd("extraL", Nn(Li(Li(Nn(Nm("Int"))))), <<ArD("a", Li(Nm("Color")), L("list", <<L("enum", "BLUE")>>))>>),
               [Fd("gone", Nm("Item"), <<>>) EXCEPT !.dep = TRUE, !.reason = "r"], [Fd("hid", Nm("Int"), <<>>) EXCEPT !.hidden = TRUE] }

Variations(ps) ==
  {MoveField(ps, i, k) : i \in {j \in Idxs(ps) : ~ps[j].ext /\ ps[j].kind \in {"OBJECT", "INTERFACE"} /\ Len(ps[j].fields) > 1 /\ ps[j].name \notin {"User", "Post"}}, k \in {1}}
  \cup {MoveField(ps, PIdx(ps, "User", "OBJECT"), k) : k \in {3, 4, 6, 7} \cap (3..Len(ps[PIdx(ps, "User", "OBJECT")].fields))}
  \cup {MoveValue(ps, ik[1], ik[2]) : ik \in {x \in {j \in Idxs(ps) : ~ps[j].ext /\ ps[j].kind = "ENUM" /\ Len(ps[j].values) > 1} \X {2, 3} : x[2] <= Len(ps[x[1]].values)}}
  \cup {MoveInput(ps, ik[1], ik[2]) : ik \in {x \in {j \in Idxs(ps) : ~ps[j].ext /\ ps[j].kind = "INPUT" /\ Len(ps[j].inputs) > 1} \X {1, 3, 5} : x[2] <= Len(ps[x[1]].inputs)}}
  \cup {MoveMember(ps, i, 2) : i \in {j \in Idxs(ps) : ~ps[j].ext /\ ps[j].kind = "UNION" /\ Len(ps[j].members) > 1}}
  \cup {MoveIface(ps, i, 1) : i \in {j \in Idxs(ps) : ~ps[j].ext /\ ps[j].kind = "OBJECT" /\ ps[j].name = "Post" /\ ps[j].ifaces # <<>>}}
  \cup {[ps EXCEPT ![i].fields = Append(@, f)] : i \in {j \in Idxs(ps) : ~ps[j].ext /\ ps[j].kind = "OBJECT" /\ ps[j].name \in {"Query", "Mut", "Post"}}, f \in NewFields}
  \cup {Append(ps, [ExtPiece("OBJECT", "Query") EXCEPT !.fields = <<f>>]) : f \in NewFields}
  \cup {Append(ps, [ExtPiece("ENUM", "Color") EXCEPT !.values = <<[EV("PINK") EXCEPT !.dep = d]>>]) : d \in BOOLEAN}
  \* an interface-typed interface field implemented by an implementer of that interface (valid)
  \cup {Append(Append(ps, [Piece(FALSE, "INTERFACE", "Media") EXCEPT !.fields = <<Fd("owner", Nm("Node"), <<>>)>>]),
               [Piece(FALSE, "OBJECT", "Video") EXCEPT !.ifaces = <<"Media">>, !.fields = <<Fd("owner", Nn(Nm("User")), <<>>)>>])}
  \* a schema that refuses introspection: @nonIntrospectable on the schema definition or on a directive-only `extend schema`
  \cup {[ps EXCEPT ![PIdx(ps, "", "SCHEMA")].tdirs = <<"nonIntrospectable">>] : x \in IF Introspectable(ps) THEN {1} ELSE {}}
  \cup {Append(ps, [ExtPiece("SCHEMA", "") EXCEPT !.tdirs = <<"nonIntrospectable">>]) : x \in IF Introspectable(ps) THEN {1} ELSE {}}
  \* a directive-only `extend schema` (whatever is declared after it must still be applied)
  \cup {Append(ps, [ExtPiece("SCHEMA", "") EXCEPT !.tdirs = <<"tag">>]) : x \in IF \E i \in Idxs(ps) : ps[i].kind = "SCHEMA" /\ "tag" \in SeqSet(ps[i].tdirs) THEN {} ELSE {1}}
  \* a directive applied to an `extend` piece (and to a base definition)
  \cup {Append(ps, [ExtPiece("OBJECT", "Query") EXCEPT !.fields = <<Fd("tagged", Nm("Int"), <<>>)>>, !.tdirs = <<"tag">>])}
  \cup {[ps EXCEPT ![PIdx(ps, "Post", "OBJECT")].tdirs = <<"tag">>]}
  \cup {Append(ps, [ExtPiece("INPUT", "Filter") EXCEPT !.inputs = <<ArD("more", Li(Nn(Nm("Filter"))), L("list", <<>>))>>])}
  \cup {Append(ps, [Piece(FALSE, "DIRECTIVE", "mark") EXCEPT !.locs = ls, !.args = as]) :
           ls \in {<<"FIELD">>, <<"QUERY", "ENUM_VALUE", "INPUT_OBJECT">>}, as \in {<<>>, <<ArD("c", Nm("Color"), L("enum", "GREEN"))>>}}
  \cup {Append(Append(ps, [Piece(FALSE, "OBJECT", "Sub") EXCEPT !.fields = <<Fd("tick", Nm("Int"), <<>>)>>]),
               [ExtPiece("SCHEMA", "") EXCEPT !.roots = << <<"subscription", "Sub">> >>])}
  \cup {[ps EXCEPT ![PIdx(ps, "", "SCHEMA")].roots = << <<"query", "Query">> >>]}
  \cup {Append(ps, [Piece(FALSE, "OBJECT", "Comment") EXCEPT !.ifaces = <<"Node">>,
                      !.fields = << Fd("id", Nn(Nm("ID")), <<>>), Fd("label", Nn(Nm("String")), <<ArD("up", Nm("Boolean"), L("bool", TRUE)), Ar("opt", Nm("Int"))>>) >>])}

------------------------------------------------------------------------------
(* Breaks: [rule, site, pieces] - one checked rule violated at one site             *)
BR(rule, site, ps) == [rule |-> rule, site |-> site, pieces |-> ps]
ObjIdx(ps) == {j \in Idxs(ps) : ~ps[j].ext /\ ps[j].kind = "OBJECT"}
Breaks(ps) ==
  LET q == PIdx(ps, "Query", "OBJECT")
      u == PIdx(ps, "User", "OBJECT")
      po == PIdx(ps, "Post", "OBJECT")
      fi == PIdx(ps, "Filter", "INPUT")
      co == PIdx(ps, "Color", "ENUM")
      it == PIdx(ps, "Item", "UNION")
      no == PIdx(ps, "Node", "INTERFACE")
      tg == PIdx(ps, "tag", "DIRECTIVE")
      sc == PIdx(ps, "", "SCHEMA") IN
  \* undefined types
  {BR("types-defined", "field", [ps EXCEPT ![q].fields = Append(@, Fd("bad", t, <<>>))]) : t \in {Nm("Nope"), Nn(Li(Nn(Nm("Nope"))))}}
  \cup {BR("types-defined", "field-in-extend", Append(ps, [ExtPiece("OBJECT", "Query") EXCEPT !.fields = <<Fd("bad", Li(Nm("Nope")), <<>>)>>]))}
  \cup {BR("types-defined", "interface-field", [ps EXCEPT ![no].fields = Append(@, Fd("bad", Nm("Nope"), <<>>))])}
  \cup {BR("types-defined", "argument", [ps EXCEPT ![q].fields = Append(@, Fd("bad", Nm("Int"), <<Ar("a", t)>>))]) : t \in {Nm("Nope"), Li(Nn(Nm("Nope")))}}
  \cup {BR("types-defined", "input-field", [ps EXCEPT ![fi].inputs = Append(@, Ar("bad", Nn(Nm("Nope"))))])}
  \cup {BR("types-defined", "directive-argument", [ps EXCEPT ![tg].args = Append(@, Ar("bad", Nm("Nope")))])}
  \* non-input types in input positions
  \cup {BR("input-types", "argument", [ps EXCEPT ![q].fields = Append(@, Fd("bad", Nm("Int"), <<Ar("a", t)>>))]) : t \in {Nm("User"), Li(Nn(Nm("Node"))), Nn(Nm("Item"))}}
  \cup {BR("input-types", "interface-argument", [ps EXCEPT ![no].fields = Append(@, Fd("bad", Nm("Int"), <<Ar("a", Nm("Post"))>>))])}
  \cup {BR("input-types", "input-field", [ps EXCEPT ![fi].inputs = Append(@, Ar("bad", t))]) : t \in {Nm("User"), Li(Nm("Item"))}}
  \cup {BR("input-types", "input-field-in-extend", Append(ps, [ExtPiece("INPUT", "Filter") EXCEPT !.inputs = <<Ar("bad", Nm("Node"))>>]))}
  \cup {BR("input-types", "directive-argument", [ps EXCEPT ![tg].args = Append(@, Ar("bad", Nm("User")))])}
  \* interfaces
  \cup {BR("interfaces", "missing-field", [ps EXCEPT ![po].fields = Without(@, 2)])}
  \cup {BR("interfaces", "incompatible-field-type", [ps EXCEPT ![po].fields = [@ EXCEPT ![1] = [@ EXCEPT !.type = t]]]) : t \in {Nm("ID"), Nn(Nm("String")), Li(Nn(Nm("ID"))), Li(Nm("ID"))}}
  \cup {BR("interfaces", "missing-argument", [ps EXCEPT ![po].fields = [@ EXCEPT ![2] = [@ EXCEPT !.args = <<>>]]])}
  \cup {BR("interfaces", "mistyped-argument", [ps EXCEPT ![po].fields = [@ EXCEPT ![2] = [@ EXCEPT !.args = <<ArD("up", Nm("Int"), L("int", 1))>>]]])}
  \cup {BR("interfaces", "extra-required-argument", [ps EXCEPT ![po].fields = [@ EXCEPT ![2] = [@ EXCEPT !.args = Append(@, Ar("req", Nn(Nm("Int"))))]]])}
  \cup {BR("interfaces", "extra-required-argument-on-argless-field", [ps EXCEPT ![po].fields = [@ EXCEPT ![1] = [@ EXCEPT !.args = <<Ar("fmt", Nn(Nm("String")))>>]]])}
  \cup {BR("interfaces", "list-of-implementer-for-interface-typed-field",
           Append(Append(ps, [Piece(FALSE, "INTERFACE", "Media") EXCEPT !.fields = <<Fd("owner", Nm("Node"), <<>>)>>]),
                  [Piece(FALSE, "OBJECT", "Video") EXCEPT !.ifaces = <<"Media">>, !.fields = <<Fd("owner", t, <<>>)>>])) : t \in {Li(Nm("User")), Nn(Li(Nn(Nm("User")))), Li(Li(Nm("Post")))}}
  \cup {BR("interfaces", "implements-non-interface", [ps EXCEPT ![po].ifaces = Append(@, x)]) : x \in {"User", "Color", "Item", "Nope"}}
  \cup {BR("interfaces", "implements-via-extend", Append(ps, [ExtPiece("OBJECT", "Query") EXCEPT !.ifaces = <<"Node">>]))}
  \* roots
  \cup {BR("roots", "no-query-root", [ps EXCEPT ![sc].roots = << <<"query", "Nope">>, <<"mutation", "Mut">> >>])}
  \cup {BR("roots", "undefined-custom-mutation", [ps EXCEPT ![sc].roots = << <<"query", "Query">>, <<"mutation", "Nope">> >>])}
  \cup {BR("roots", "undefined-default-mutation", [ps EXCEPT ![sc].roots = << <<"query", "Query">>, <<"mutation", "Mutation">> >>])}
  \* (not combined with an `extend schema` that re-declares the operation: which declaration wins is not a checked rule)
  \cup {BR("roots", "undefined-default-subscription", [ps EXCEPT ![sc].roots = << <<"query", "Query">>, <<"subscription", "Subscription">> >>]) :
           x \in IF \E i \in Idxs(ps) : ps[i].ext /\ ps[i].kind = "SCHEMA" THEN {} ELSE {1}}
  \* an undefined root type named by an `extend schema` piece
  \cup {BR("roots", "undefined-subscription-via-extend-schema", Append(ps, [ExtPiece("SCHEMA", "") EXCEPT !.roots = << <<"subscription", nm>> >>])) :
           nm \in IF \E i \in Idxs(ps) : ps[i].kind = "SCHEMA" /\ \E k \in Idxs(ps[i].roots) : ps[i].roots[k][1] = "subscription" THEN {} ELSE {"Nope", "Subscription"}}
  \cup {BR("roots", "default-query-missing", [[ps EXCEPT ![q].name = "Qry"] EXCEPT ![sc].roots = << <<"mutation", "Mut">> >>])}
  \* objects, unions, enums, duplicates
  \cup {BR("non-empty-object", "object", Append(ps, Piece(FALSE, "OBJECT", "Empty")))}
  \cup {BR("non-empty-object", "query-root", [ps EXCEPT ![q].fields = <<>>]) : x \in IF \E i \in Idxs(ps) : ps[i].ext /\ ps[i].name = "Query" THEN {} ELSE {1}}
  \cup {BR("non-empty-object", "mutation-root", [ps EXCEPT ![PIdx(ps, "Mut", "OBJECT")].fields = <<>>]) : x \in IF \E i \in Idxs(ps) : ps[i].ext /\ ps[i].name = "Mut" THEN {} ELSE {1}}
  \cup {BR("non-empty-object", "custom-query-root", Append([ps EXCEPT ![sc].roots = << <<"query", "RootQ">>, <<"mutation", "Mut">> >>], Piece(FALSE, "OBJECT", "RootQ")))}
  \cup {BR("union-self", "union", [ps EXCEPT ![it].members = Append(@, "Item")])}
  \cup {BR("union-self", "union-extend", Append(ps, [ExtPiece("UNION", "Item") EXCEPT !.members = <<"Item">>]))}
  \cup {BR("enum-unique", "enum", [ps EXCEPT ![co].values = Append(@, EV("RED"))])}
  \cup {BR("definitions-unique", "type", Append(ps, [Piece(FALSE, k, n) EXCEPT !.fields = IF k = "OBJECT" THEN <<Fd("x", Nm("Int"), <<>>)>> ELSE <<>>, !.values = IF k = "ENUM" THEN <<EV("A")>> ELSE <<>>])) :
           k \in {"OBJECT", "ENUM"}, n \in {"User", "Color", "Filter", "Custom"}}
  \cup {BR("definitions-unique", "directive", Append(ps, [Piece(FALSE, "DIRECTIVE", "tag") EXCEPT !.locs = <<"FIELD">>]))}
  \cup {BR("scalar-implemented", "scalar", Append(ps, [Piece(FALSE, "SCALAR", "Orphan") EXCEPT !.impl = "missing"]))}
  \cup {BR("hooks-awaitable", "directive", Append(ps, [Piece(FALSE, "DIRECTIVE", "sync") EXCEPT !.locs = <<"FIELD_DEFINITION">>, !.impl = "sync-hook"]))}
  \* an `async def` hook behind a functools.wraps decorator whose wrapper is an ordinary function (what is called is not awaitable)
  \cup {BR("hooks-awaitable", "decorated-directive-hook", Append(ps, [Piece(FALSE, "DIRECTIVE", "sync") EXCEPT !.locs = <<"FIELD_DEFINITION">>, !.impl = "wrapped-sync-hook"]))}
  \* extensions
  \cup {BR("extensions", "unknown-target", Append(ps, [ExtPiece(k, "Ghost") EXCEPT !.fields = IF k \in {"OBJECT", "INTERFACE"} THEN <<Fd("x", Nm("Int"), <<>>)>> ELSE <<>>,
                                                                               !.values = IF k = "ENUM" THEN <<EV("A")>> ELSE <<>>,
                                                                               !.members = IF k = "UNION" THEN <<"User">> ELSE <<>>,
                                                                               !.inputs = IF k = "INPUT" THEN <<Ar("x", Nm("Int"))>> ELSE <<>>])) :
           k \in {"OBJECT", "INTERFACE", "ENUM", "UNION", "INPUT"}}
  \cup {BR("extensions", "wrong-kind", Append(ps, [ExtPiece("OBJECT", n) EXCEPT !.fields = <<Fd("x", Nm("Int"), <<>>)>>])) : n \in {"Color", "Filter", "Node", "Item"}}
  \cup {BR("extensions", "wrong-kind", Append(ps, [ExtPiece("ENUM", "User") EXCEPT !.values = <<EV("A")>>]))}
  \cup {BR("extensions", "duplicate-field", Append(ps, [ExtPiece("OBJECT", "User") EXCEPT !.fields = <<Fd("id", Nn(Nm("ID")), <<>>)>>]))}
  \cup {BR("extensions", "duplicate-field", Append(ps, [ExtPiece("INTERFACE", "Node") EXCEPT !.fields = <<Fd("id", Nn(Nm("ID")), <<>>)>>]))}
  \cup {BR("extensions", "duplicate-value", Append(ps, [ExtPiece("ENUM", "Color") EXCEPT !.values = <<EV("BLUE")>>]))}
  \cup {BR("extensions", "duplicate-input-field", Append(ps, [ExtPiece("INPUT", "Filter") EXCEPT !.inputs = <<Ar("limit", Nm("Int"))>>]))}
  \cup {BR("extensions", "duplicate-member", Append(ps, [ExtPiece("UNION", "Item") EXCEPT !.members = <<"Post">>]))}
  \cup {BR("extensions", "duplicate-interface", Append(ps, [ExtPiece("OBJECT", "User") EXCEPT !.ifaces = <<"Node">>]))}
  \* syntax
  \cup {BR("syntax", "raw", Append(ps, [Piece(FALSE, "RAW", x) EXCEPT !.impl = "raw"])) : x \in {"type {", "type A { a: }", "enum E { }", "input I { x: Int = }", "type B implements { a: Int }", "extend", "scalar", "union U = | |", "directive @d on", "type C { a(: Int): Int }",
                                                                                                  \* extensions that extend nothing
                                                                                                  "extend type Query", "extend interface Node", "extend enum Color", "extend input Filter", "extend union Item", "extend schema"}}
=============================================================================
