SPECIFICATION Spec
CONSTANTS
  Types <- TypesExec
  Roots <- RootsExec
INVARIANT Judge
CHECK_DEADLOCK FALSE
