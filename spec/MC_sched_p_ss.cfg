SPECIFICATION SpecS
CONSTANTS
  Types <- TypesExec
  Roots <- RootsExec
  MaxSel = 6
  MaxDepth = 4
  MaxFrags = 0
  MaxOps = 1
  OpTypes = {"query"}
  FieldAlpha <- AlphaSchedP
  Aliases = {""}
  Conds = {"A"}
  DirOpts <- NoDirs
  ArgOpts <- ArgOptsNone
  VarTypes <- VarTypesStd
  VarVals <- VarValsStd
  MaxOverlay = 0
  TRSets <- NoTR
  FalsyOverlays = FALSE
  MaxFaults = 1
  SeqFields <- AllFieldNames
  LConc = FALSE
  WithFaults = FALSE
INVARIANT R1_Sched
INVARIANT R1_Serial
INVARIANT EmitS
CHECK_DEADLOCK FALSE
