SPECIFICATION SpecS
CONSTANTS
  Types <- TypesExec
  Roots <- RootsExec
  MaxSel = 3
  MaxDepth = 3
  MaxFrags = 0
  MaxOps = 1
  OpTypes = {"mutation"}
  FieldAlpha <- AlphaCsM
  Aliases = {""}
  Conds = {""}
  DirOpts <- NoDirs
  ArgOpts <- ArgOptsNone
  VarTypes <- VarTypesStd
  VarVals <- VarValsStd
  MaxOverlay = 0
  TRSets <- NoTR
  FalsyOverlays = FALSE
  MaxFaults = 2
  SeqFields <- AllFieldNames
  LConc = FALSE
  WithFaults = TRUE
INVARIANT R1_Sched
INVARIANT R1_Serial
INVARIANT EmitS
CHECK_DEADLOCK FALSE
