SPECIFICATION SpecF
CONSTANTS
  Types <- TypesExec
  Roots <- RootsExec
  MaxSel = 3
  MaxDepth = 3
  MaxFrags = 0
  MaxOps = 1
  OpTypes = {"mutation"}
  FieldAlpha <- AlphaCsM
  Aliases = {"", "z"}
  Conds = {""}
  DirOpts <- NoDirs
  ArgOpts <- ArgOptsNone
  VarTypes <- VarTypesStd
  VarVals <- VarValsStd
  MaxOverlay = 0
  TRSets <- NoTR
  FalsyOverlays = FALSE
  MaxFaults = 1
INVARIANT R1_Faults
INVARIANT EmitF
CHECK_DEADLOCK FALSE
