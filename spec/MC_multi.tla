------------------------------ MODULE MC_multi -------------------------------
(* R1 + R2 configuration for C15: several requests in flight on ONE engine.
   A document (possibly with several operations) is generated, then NReq requests
   over it are chosen (operation, variables, data overlay - same or different), and
   every interleaving of their resolver completions is explored: the only shared
   things are the schema and the parsed document; each request's scheduler state is
   its own `released` set.                                                          *)
EXTENDS MC_faults, Sched

CONSTANTS SeqFields, LConc, NReq,
          OverlayKinds     \* the overlay outcomes a request may carry (keeps the product of requests small)

VARIABLES reqs,       \* Seq of picks [op, given, overlay]
          rel,        \* Seq of released sets, one per request
          hist        \* Seq of [rid, p]
mvars == <<nodes, phase, pick, reqs, rel, hist>>

Flags == [seq |-> SeqFields, lconc |-> LConc]
CtxOf(i) == [nodes |-> nodes, op |-> reqs[i].op, vars |-> CoercedVars(nodes, reqs[i].op, reqs[i].given), overlay |-> reqs[i].overlay]
SimOf(i) == Sim(CtxOf(i), Flags, rel[i])
PendingOf(i) == SimOf(i).started \ rel[i]

InitM == Init /\ reqs = <<>> /\ rel = <<>> /\ hist = <<>>
BuildM == (AddOp \/ AddFrag \/ AddField \/ AddInline \/ AddSpread \/ Finish) /\ UNCHANGED <<reqs, rel, hist>>

\* choose the next request: fault-free or with one fault
Choose ==
  /\ phase = "pick" /\ Len(reqs) < NReq
  /\ \E op \in OpIds :
       \E g \in Assignments(nodes, op) :
         /\ GoodAssignment(nodes, op, g)
         /\ LET C0 == BaseC(op, CoercedVars(nodes, op, g))
                ps == BigStep(C0).pos IN
            \/ reqs' = Append(reqs, [op |-> op, given |-> g, overlay |-> <<>>])
            \/ \E p1 \in ps : \E o1 \in (FaultsAt(p1) \cup BenignAt(p1)) \cap OverlayKinds :
                 reqs' = Append(reqs, [op |-> op, given |-> g, overlay |-> (p1.path :> o1)])
  /\ rel' = Append(rel, {})
  /\ UNCHANGED <<nodes, phase, pick, hist>>
Go == phase = "pick" /\ Len(reqs) = NReq /\ phase' = "done" /\ UNCHANGED <<nodes, pick, reqs, rel, hist>>

ReleaseM ==
  /\ phase = "done"
  /\ \E i \in 1..NReq : \E p \in PendingOf(i) :
       /\ rel' = [rel EXCEPT ![i] = @ \cup {p}]
       /\ hist' = Append(hist, [rid |-> i, p |-> p])
  /\ UNCHANGED <<nodes, phase, pick, reqs>>
NextM == BuildM \/ Choose \/ Go \/ ReleaseM
SpecM == InitM /\ [][NextM]_mvars

AllDone == phase = "done" /\ \A i \in 1..NReq : SimDone(SimOf(i))

\* each request's answer is the answer it gets alone, whatever the interleaving
R1_Multi == phase = "done" =>
  \A i \in 1..NReq :
     LET s == SimOf(i)
         b == BigStep(CtxOf(i)) IN
     /\ (~SimDone(s) => PendingOf(i) # {})
     /\ (SimDone(s) => VEq(SimData(s), b.data) /\ s.errs \subseteq b.errs)

EmitM == AllDone =>
  PrintT(ToJson([kind |-> "multi", nodes |-> nodes, seq |-> SeqFields, lconc |-> LConc, hist |-> hist,
                 reqs |-> [i \in 1..NReq |->
                    LET s == SimOf(i)
                        b == BigStep(CtxOf(i)) IN
                    [op |-> reqs[i].op, given |-> PairsOf(reqs[i].given), overlay |-> PairsOf(reqs[i].overlay),
                     data |-> SimData(s), errs |-> b.errs, nulls |-> SimNulls(s), calls |-> b.calls,
                     init |-> Sim(CtxOf(i), Flags, {}).started]]]))
=============================================================================
