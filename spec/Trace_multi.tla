----------------------------- MODULE Trace_multi -----------------------------
(* R3 for C15: executions of the real engine with SEVERAL requests in flight on one
   engine - different documents, started at different moments, completions interleaved by
   a schedule chosen by the harness (seeded random) - are validated against the
   single-request scheduler specification.  The property is non-interference, so the trace
   specification is a product of independent copies of Sched!Sim, one per request:

     record = [tid, seq, lconc,
               reqs   : Seq of [nodes, op, vars, overlay, data, errpaths, leftover],
               events : Seq of [kind : "start" | "release", rid, p,
                                pending : Seq (one entry per request) of the resolvers of that
                                          request suspended at the next idle point]]

   TStartReq  : request rid enters; the resolvers it suspends are instances ITS big-step
                calls; the pending sets of all OTHER requests are untouched.
   TRelease   : the await of resolver p of request rid is satisfied; p is an instance the
                algorithm calls for that request, not released before; what that request now
                suspends are its own instances; all OTHER requests' pending sets are untouched.
   TRespond   : every request's data is its own big-step data, its errors are located at its
                own failures, every visible null is explained, nothing is left over, mutation
                roots were serial within the request.
   `strict` (coverage, as in Trace_sched): the observed pending sets are exactly Sched!Sim's. *)
EXTENDS Sched, SExec, Json, IOUtils, TLCExt

All == ndJsonDeserialize(IOEnv.TRACE_FILE)

VARIABLES i, l, started, released, pend, strict
tvars == <<i, l, started, released, pend, strict>>

PairsToFun(ps) == [x \in {ps[k][1] : k \in 1..Len(ps)} |-> ps[CHOOSE k \in 1..Len(ps) : ps[k][1] = x][2]]
CtxOf(r) == [nodes |-> r.nodes, op |-> r.op, vars |-> PairsToFun(r.vars), overlay |-> PairsToFun(r.overlay)]
FlagsOf(rec) == [seq |-> SeqToSet(rec.seq), lconc |-> rec.lconc]
CallPaths(r) == LET b == BigStep(CtxOf(r)) IN {b.calls[k].path : k \in 1..Len(b.calls)}
Rec == All[i]
NReq(rec) == Len(rec.reqs)
Obs(rec, e, k) == SeqToSet(rec.events[e].pending[k])

TInit == /\ i \in 1..Len(All) /\ l = 1 /\ strict = TRUE
         /\ started = {} /\ released = [k \in 1..NReq(All[i]) |-> {}] /\ pend = [k \in 1..NReq(All[i]) |-> {}]

OthersUntouched(rec, e, rid) == \A k \in 1..NReq(rec) : k # rid => Obs(rec, e, k) = pend[k]

TStartReq ==
  /\ l <= Len(Rec.events) /\ Rec.events[l].kind = "start"
  /\ LET rid == Rec.events[l].rid IN
     /\ rid \notin started
     /\ Obs(Rec, l, rid) \subseteq CallPaths(Rec.reqs[rid])
     /\ OthersUntouched(Rec, l, rid)
     /\ started' = started \cup {rid}
     /\ pend' = [pend EXCEPT ![rid] = Obs(Rec, l, rid)]
     /\ strict' = (strict /\ Obs(Rec, l, rid) = Sim(CtxOf(Rec.reqs[rid]), FlagsOf(Rec), {}).started)
  /\ l' = l + 1 /\ UNCHANGED <<i, released>>

TRelease ==
  /\ l <= Len(Rec.events) /\ Rec.events[l].kind = "release"
  /\ LET rid == Rec.events[l].rid
         p == Rec.events[l].p
         r == Rec.reqs[rid]
         rel2 == released[rid] \cup {p} IN
     /\ rid \in started
     /\ p \in CallPaths(r) \ released[rid]
     /\ Obs(Rec, l, rid) \subseteq CallPaths(r) \ rel2
     /\ OthersUntouched(Rec, l, rid)
     /\ released' = [released EXCEPT ![rid] = rel2]
     /\ pend' = [pend EXCEPT ![rid] = Obs(Rec, l, rid)]
     /\ strict' = (strict /\ p \in Sim(CtxOf(r), FlagsOf(Rec), released[rid]).started \ released[rid]
                          /\ Obs(Rec, l, rid) = Sim(CtxOf(r), FlagsOf(Rec), rel2).started \ rel2)
  /\ l' = l + 1 /\ UNCHANGED <<i, started>>

RECURSIVE AsWire(_)
AsWire(v) == IF v.t = "E" THEN Str(v.v)
             ELSE IF v.t = "L" THEN Lst([k \in 1..Len(v.v) |-> AsWire(v.v[k])])
             ELSE IF v.t = "O" THEN Obj([k \in 1..Len(v.v) |-> <<v.v[k][1], AsWire(v.v[k][2])>>])
             ELSE v
VisibleN(ns) == {n \in ns : ~\E m \in ns : m.at # n.at /\ IsPrefixPath(m.at, n.at)}

\* the releases of request k, in order, with what that request suspended afterwards
ReqEvents(rec, k) == SelectSeq(rec.events, LAMBDA e : e.kind = "release" /\ e.rid = k)
RootOrder(r) == LET g == Collect(CtxOf(r), RootType(CtxOf(r)), <<r.op>>) IN [m \in 1..Len(g) |-> g[m][1]]
RootIdx(r, key) == CHOOSE m \in 1..Len(RootOrder(r)) : RootOrder(r)[m] = key
SerialOK(rec, k) ==
  LET r == rec.reqs[k]
      ev == ReqEvents(rec, k) IN
  r.nodes[r.op].optype = "mutation" =>
    /\ \A e \in 1..Len(rec.events) : Cardinality({p[1] : p \in Obs(rec, e, k)}) <= 1
    /\ \A m, n \in 1..Len(ev) : m < n => RootIdx(r, ev[m].p[1]) <= RootIdx(r, ev[n].p[1])

DataOK(r) == VEq(AsWire(BigStep(CtxOf(r)).data), r.data)
ErrorsOK(r) == LET b == BigStep(CtxOf(r)) IN
               /\ SeqToSet(r.errpaths) \subseteq {e.path : e \in b.errs}
               /\ \A n \in VisibleN(b.nulls) : n.why \cap SeqToSet(r.errpaths) # {}

TRespond ==
  /\ l = Len(Rec.events) + 1
  /\ started = 1..NReq(Rec)
  /\ \A k \in 1..NReq(Rec) :
       /\ DataOK(Rec.reqs[k]) /\ ErrorsOK(Rec.reqs[k]) /\ ~Rec.reqs[k].leftover /\ SerialOK(Rec, k)
  /\ strict' = (strict /\ \A k \in 1..NReq(Rec) : SimDone(Sim(CtxOf(Rec.reqs[k]), FlagsOf(Rec), released[k])))
  /\ l' = l + 1 /\ UNCHANGED <<i, started, released, pend>>

TNext == TStartReq \/ TRelease \/ TRespond
TSpec == TInit /\ [][TNext]_tvars

Progress == /\ TLCSet(i, IF TLCGet(i) < l THEN l ELSE TLCGet(i))
            /\ (l = Len(Rec.events) + 2 => TLCSet(Len(All) + i, IF strict THEN 1 ELSE 0))
ASSUME \A k \in 1..(2 * Len(All)) : TLCSet(k, 0)

\* which clause fails at the point where record k got stuck (state re-derived from the consumed prefix)
Stuck(k) ==
  LET rec == All[k]
      at == TLCGet(k)
      RelOf(q) == {rec.events[m].p : m \in {m \in 1..(at - 1) : rec.events[m].kind = "release" /\ rec.events[m].rid = q}}
      PendOf(q) == LET ms == {m \in 1..(at - 1) : rec.events[m].rid = q} IN
                   IF ms = {} THEN {} ELSE Obs(rec, CHOOSE m \in ms : \A n \in ms : n <= m, q) IN
  IF at <= Len(rec.events) THEN
     LET e == rec.events[at]
         rid == e.rid IN
     IF \E q \in 1..NReq(rec) : q # rid /\ Obs(rec, at, q) # PendOf(q) THEN "another-request-disturbed"
     ELSE IF e.kind = "start" THEN "started-resolver-the-algorithm-never-calls"
     ELSE IF e.p \in RelOf(rid) THEN "resolver-released-twice"
     ELSE IF e.p \notin CallPaths(rec.reqs[rid]) THEN "resolver-the-algorithm-never-calls"
     ELSE "suspended-resolver-the-algorithm-never-calls"
  ELSE IF \E q \in 1..NReq(rec) : ~DataOK(rec.reqs[q]) THEN "data"
  ELSE IF \E q \in 1..NReq(rec) : rec.reqs[q].leftover THEN "resolvers-or-tasks-left-over"
  ELSE IF \E q \in 1..NReq(rec) : ~SerialOK(rec, q) THEN "mutation-roots-not-serial"
  ELSE "errors"

Verdicts == \A k \in 1..Len(All) :
   IF TLCGet(k) = Len(All[k].events) + 2
   THEN PrintT(ToJson([kind |-> "verdict", tid |-> All[k].tid, ok |-> TRUE, clause |-> IF TLCGet(Len(All) + k) = 1 THEN "" ELSE "accepted-but-not-model-conformant"]))
   ELSE PrintT(ToJson([kind |-> "verdict", tid |-> All[k].tid, ok |-> FALSE, clause |-> Stuck(k)]))
=============================================================================
