--------------------------- MODULE InputCoercion ----------------------------
(* Input coercion (June 2018 sections 3.x "Input Coercion", 6.1.2 CoerceVariableValues,
   6.4.1 CoerceArgumentValues) over a small input schema, at the grain of the
   implementation.

   JSON / internal values are tagged (Values.tla); every leaf is a token of
   Scalars.tla plus the enum-name tokens "eX", "eY" (declared values of E) and "eZ"
   (an undeclared name) - as JSON these are the strings "X", "Y", "Z".

   Literals: [t, v] with t \in {"int","float","str","bool","enum","null","var","list","obj"};
   leaf literals carry the token of the value they spell.                              *)
EXTENDS Values, Scalars

Nm(n) == <<n>>
Nn(t) == <<"NN">> \o t
Li(t) == <<"L">> \o t
INamed(t) == t[Len(t)]
INN(t) == t[1] = "NN"
IList(t) == t[1] = "L"

ScalarNames == {"Int", "Float", "String", "Boolean", "ID"}
EnumVals == {"eX", "eY"}
EnumToks == {"eX", "eY", "eZ"}

NoLit == [t |-> "null", v |-> 0]
IField(n, t, hd, d) == [name |-> n, type |-> t, hasDefault |-> hd, default |-> d]
\* input In1 { x: Int = 1, y: [Int!], r: Int! }      input In2 { n: In2, s: String = "1", e: E }
InputObjs == [
  In1 |-> << IField("x", Nm("Int"), TRUE, [t |-> "int", v |-> "iONE"]), IField("y", Li(Nn(Nm("Int"))), FALSE, NoLit),
             IField("r", Nn(Nm("Int")), FALSE, NoLit),
             \* non-null AND defaulted: may be omitted (the default applies), may not be null
             IField("k", Nn(Nm("Int")), TRUE, [t |-> "int", v |-> "iONE"]) >>,
  In2 |-> << IField("n", Nm("In2"), FALSE, NoLit), IField("s", Nm("String"), TRUE, [t |-> "str", v |-> "sONE"]),
             IField("e", Nm("E"), FALSE, NoLit) >> ]
IsInputObj(n) == n \in DOMAIN InputObjs

K(tok) == [t |-> "K", v |-> tok]
FieldNamesOf(n) == {InputObjs[n][i].name : i \in 1..Len(InputObjs[n])}
ObjGet(o, key) == LET S == {i \in 1..Len(o.v) : o.v[i][1] = key} IN IF S = {} THEN Absent ELSE o.v[CHOOSE i \in S : TRUE][2]

Ok(v) == [ok |-> TRUE, v |-> v]
Bad   == [ok |-> FALSE, v |-> Null]

\* ---- leaf input coercion through Scalars.tla (deterministic cells only are generated)
AsScalarTok(tok) == IF tok \in EnumToks THEN "sTXT" ELSE tok
LeafIn(s, tok) ==
  LET rs == In(s, AsScalarTok(tok)) IN
  IF rs = {FAIL} THEN Bad
  ELSE LET r == CHOOSE x \in rs : x # FAIL IN
       Ok(K(IF r = "sTXT" /\ tok \in EnumToks THEN tok ELSE r))

------------------------------------------------------------------------------
(* Coercion of a JSON value (variables, and values already coerced)               *)
RECURSIVE CoerceIn(_, _), CoerceObjFields(_, _, _), CoerceLit(_, _, _), CoerceLitObj(_, _, _, _), CoerceLitItems(_, _, _, _)

CoerceIn(t, v) ==
  IF INN(t) THEN (IF IsNull(v) THEN Bad ELSE CoerceIn(Tail(t), v))
  ELSE IF IsNull(v) THEN Ok(Null)
  ELSE IF IList(t) THEN
     IF v.t = "L" THEN
        LET rs == [i \in 1..Len(v.v) |-> CoerceIn(Tail(t), v.v[i])] IN
        IF \E i \in 1..Len(rs) : ~rs[i].ok THEN Bad ELSE Ok(Lst([i \in 1..Len(rs) |-> rs[i].v]))
     ELSE LET r == CoerceIn(Tail(t), v) IN IF r.ok THEN Ok(Lst(<<r.v>>)) ELSE Bad      \* a single value is wrapped
  ELSE LET n == INamed(t) IN
     IF n \in ScalarNames THEN (IF v.t = "K" THEN LeafIn(n, v.v) ELSE Bad)
     ELSE IF n = "E" THEN (IF v.t = "K" /\ v.v \in EnumVals THEN Ok(v) ELSE Bad)
     ELSE \* input object
        IF v.t # "O" THEN Bad
        ELSE IF \E i \in 1..Len(v.v) : v.v[i][1] \notin FieldNamesOf(n) THEN Bad      \* unknown field
        ELSE CoerceObjFields(n, v, 1)

\* fields of input object type n from index i on: result value is Obj(pairs in declaration order)
CoerceObjFields(n, v, i) ==
  IF i > Len(InputObjs[n]) THEN Ok(Obj(<<>>))
  ELSE LET f == InputObjs[n][i]
           given == ObjGet(v, f.name)
           me == IF IsAbsent(given)
                 THEN (IF f.hasDefault THEN CoerceLit(f.type, f.default, <<>>)
                       ELSE IF INN(f.type) THEN [st |-> "invalid", v |-> Null]
                       ELSE [st |-> "skip", v |-> Null])
                 ELSE LET r == CoerceIn(f.type, given) IN [st |-> IF r.ok THEN "ok" ELSE "invalid", v |-> r.v]
           rest == CoerceObjFields(n, v, i + 1) IN
       IF me.st = "invalid" \/ ~rest.ok THEN Bad
       ELSE IF me.st = "skip" THEN rest
       ELSE Ok(Obj(<<<<f.name, me.v>>>> \o rest.v.v))

------------------------------------------------------------------------------
(* Coercion of a literal under the coerced variable values `vars` (valueFromAST).
   Result [st \in {"ok","invalid"}, v].  A variable contributes its runtime value
   unchanged; a missing variable makes a nullable list item null, an input field
   fall back to its default / be omitted, anything else invalid.                   *)
LOk(v) == [st |-> "ok", v |-> v]
LBad == [st |-> "invalid", v |-> Null]
MissingVar(lit, vars) == lit.t = "var" /\ lit.v \notin DOMAIN vars

LeafLit(s, lit) ==
  LET kind == IF lit.t = "int" THEN "IntValue" ELSE IF lit.t = "float" THEN "FloatValue" ELSE IF lit.t = "str" THEN "StringValue"
              ELSE IF lit.t = "bool" THEN "BooleanValue" ELSE IF lit.t = "enum" THEN "EnumValue" ELSE "ListValue"
      rs == LitC(s, [k |-> kind, t |-> AsScalarTok(lit.v)]) IN
  IF lit.t \in {"list", "obj"} \/ rs = {FAIL} THEN LBad
  ELSE LET r == CHOOSE x \in rs : x # FAIL IN LOk(K(IF r = "sTXT" /\ lit.v \in EnumToks THEN lit.v ELSE r))

CoerceLit(t, lit, vars) ==
  IF lit.t = "var" THEN
     IF lit.v \notin DOMAIN vars THEN LBad
     ELSE IF INN(t) /\ IsNull(vars[lit.v]) THEN LBad
     ELSE LOk(vars[lit.v])
  ELSE IF INN(t) THEN (IF lit.t = "null" THEN LBad ELSE CoerceLit(Tail(t), lit, vars))
  ELSE IF lit.t = "null" THEN LOk(Null)
  ELSE IF IList(t) THEN
     IF lit.t = "list" THEN CoerceLitItems(Tail(t), lit.v, vars, 1)
     ELSE LET r == CoerceLit(Tail(t), lit, vars) IN IF r.st = "ok" THEN LOk(Lst(<<r.v>>)) ELSE LBad
  ELSE LET n == INamed(t) IN
     IF n \in ScalarNames THEN LeafLit(n, lit)
     ELSE IF n = "E" THEN (IF lit.t = "enum" /\ lit.v \in EnumVals THEN LOk(K(lit.v)) ELSE LBad)
     ELSE IF lit.t # "obj" THEN LBad
     ELSE IF \E i \in 1..Len(lit.v) : lit.v[i][1] \notin FieldNamesOf(n) THEN LBad
     ELSE CoerceLitObj(n, lit, vars, 1)

CoerceLitItems(it, items, vars, i) ==
  IF i > Len(items) THEN LOk(Lst(<<>>))
  ELSE LET me == IF MissingVar(items[i], vars) THEN (IF INN(it) THEN LBad ELSE LOk(Null))
                 ELSE CoerceLit(it, items[i], vars)
           rest == CoerceLitItems(it, items, vars, i + 1) IN
       IF me.st = "invalid" \/ rest.st = "invalid" THEN LBad ELSE LOk(Lst(<<me.v>> \o rest.v.v))

LitObjGet(lit, key) == LET S == {i \in 1..Len(lit.v) : lit.v[i][1] = key} IN IF S = {} THEN [t |-> "absent", v |-> 0] ELSE lit.v[CHOOSE i \in S : TRUE][2]

CoerceLitObj(n, lit, vars, i) ==
  IF i > Len(InputObjs[n]) THEN LOk(Obj(<<>>))
  ELSE LET f == InputObjs[n][i]
           given == LitObjGet(lit, f.name)
           me == IF given.t = "absent" \/ MissingVar(given, vars)
                 THEN (IF f.hasDefault THEN CoerceLit(f.type, f.default, vars)
                       ELSE IF INN(f.type) THEN LBad
                       ELSE [st |-> "skip", v |-> Null])
                 ELSE CoerceLit(f.type, given, vars)
           rest == CoerceLitObj(n, lit, vars, i + 1) IN
       IF me.st = "invalid" \/ rest.st = "invalid" THEN LBad
       ELSE IF me.st = "skip" THEN rest
       ELSE LOk(Obj(<<<<f.name, me.v>>>> \o rest.v.v))

------------------------------------------------------------------------------
(* CoerceVariableValues.  vdefs: Seq([name, type, hasDefault, default]); given: function
   on the provided names (extra, undeclared names are ignored).
   Result: [refused, offending (set of names), values (function on the names that have a value)] *)
VarOutcome(vd, given) ==
  IF vd.name \notin DOMAIN given THEN
     IF vd.hasDefault THEN
        LET r == CoerceLit(vd.type, vd.default, <<>>) IN
        IF r.st = "ok" THEN [st |-> "value", v |-> r.v] ELSE [st |-> "bad", v |-> Null]
     ELSE IF INN(vd.type) THEN [st |-> "bad", v |-> Null]
     ELSE [st |-> "absent", v |-> Null]
  ELSE IF IsNull(given[vd.name]) /\ INN(vd.type) THEN [st |-> "bad", v |-> Null]
  ELSE LET r == CoerceIn(vd.type, given[vd.name]) IN
       IF r.ok THEN [st |-> "value", v |-> r.v] ELSE [st |-> "bad", v |-> Null]

CoerceVars(vdefs, given) ==
  LET out == [i \in 1..Len(vdefs) |-> VarOutcome(vdefs[i], given)]
      offending == {vdefs[i].name : i \in {j \in 1..Len(vdefs) : out[j].st = "bad"}}
      have == {i \in 1..Len(vdefs) : out[i].st = "value"} IN
  [refused |-> offending # {}, offending |-> offending,
   values |-> [x \in {vdefs[i].name : i \in have} |-> out[CHOOSE i \in have : vdefs[i].name = x].v]]

------------------------------------------------------------------------------
(* CoerceArgumentValues for one field / directive node.  argdefs: Seq(IField);
   argnodes: Seq([name, val]).  Result [ok, v: Seq(<<name, value>>) in declaration order] *)
ArgNodeOf(argnodes, name) == LET S == {i \in 1..Len(argnodes) : argnodes[i].name = name} IN IF S = {} THEN 0 ELSE CHOOSE i \in S : TRUE

ArgOutcome(a, argnodes, vars) ==
  LET i == ArgNodeOf(argnodes, a.name)
      lit == IF i = 0 THEN [t |-> "absent", v |-> 0] ELSE argnodes[i].val
      isVar == lit.t = "var"
      hasValue == IF isVar THEN lit.v \in DOMAIN vars ELSE i # 0
      isNull == IF isVar THEN (hasValue /\ IsNull(vars[lit.v])) ELSE lit.t = "null" IN
  IF ~hasValue /\ a.hasDefault THEN
     LET r == CoerceLit(a.type, a.default, vars) IN IF r.st = "ok" THEN [st |-> "value", v |-> r.v] ELSE [st |-> "bad", v |-> Null]
  ELSE IF (~hasValue \/ isNull) /\ INN(a.type) THEN [st |-> "bad", v |-> Null]
  ELSE IF ~hasValue THEN [st |-> "absent", v |-> Null]
  ELSE IF lit.t = "null" THEN [st |-> "value", v |-> Null]
  ELSE IF isVar THEN [st |-> "value", v |-> vars[lit.v]]
  ELSE LET r == CoerceLit(a.type, lit, vars) IN IF r.st = "ok" THEN [st |-> "value", v |-> r.v] ELSE [st |-> "bad", v |-> Null]

CoerceArgsFull(argdefs, argnodes, vars) ==
  LET out == [i \in 1..Len(argdefs) |-> ArgOutcome(argdefs[i], argnodes, vars)]
      keep == SelectSeq([i \in 1..Len(argdefs) |-> i], LAMBDA i : out[i].st = "value") IN
  [ok |-> \A i \in 1..Len(argdefs) : out[i].st # "bad",
   v |-> [j \in 1..Len(keep) |-> <<argdefs[keep[j]].name, out[keep[j]].v>>]]

------------------------------------------------------------------------------
(* Type soundness of a delivered value                                             *)
LeafOf(s, tok) ==
  IF s = "Int" THEN tok \in IntIn32
  ELSE IF s = "Float" THEN tok \in FloatFinite
  ELSE IF s = "Boolean" THEN tok \in BoolToks
  ELSE tok \in StrToks \cup EnumToks \cup {"s2P53", "sHUGE"}       \* String, ID: text

RECURSIVE WellTyped(_, _)
WellTyped(t, v) ==
  IF INN(t) THEN ~IsNull(v) /\ WellTyped(Tail(t), v)
  ELSE IF IsNull(v) THEN TRUE
  ELSE IF IList(t) THEN v.t = "L" /\ \A i \in 1..Len(v.v) : WellTyped(Tail(t), v.v[i])
  ELSE LET n == INamed(t) IN
     IF n \in ScalarNames THEN v.t = "K" /\ LeafOf(n, v.v)
     ELSE IF n = "E" THEN v.t = "K" /\ v.v \in EnumVals
     ELSE /\ v.t = "O"
          /\ \A i \in 1..Len(v.v) : v.v[i][1] \in FieldNamesOf(n)
          /\ \A i \in 1..Len(InputObjs[n]) :
                LET f == InputObjs[n][i]
                    g == ObjGet(v, f.name) IN
                IF IsAbsent(g) THEN ~INN(f.type) /\ ~f.hasDefault ELSE WellTyped(f.type, g)
=============================================================================
