SPECIFICATION TSpec
CONSTANTS
  Types <- TypesExec
  Roots <- RootsExec
CONSTRAINT Progress
POSTCONDITION Verdicts
CHECK_DEADLOCK FALSE
