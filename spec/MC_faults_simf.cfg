SPECIFICATION SpecF
CONSTANTS
  Types <- TypesExec
  Roots <- RootsExec
  MaxSel = 7
  MaxDepth = 3
  MaxFrags = 2
  MaxOps = 1
  OpTypes = {"query"}
  FieldAlpha <- AlphaSimF
  Aliases = {""}
  Conds = {"T", "Query"}
  DirOpts <- NoDirs
  ArgOpts <- ArgOptsNone
  VarTypes <- VarTypesStd
  VarVals <- VarValsStd
  MaxOverlay = 0
  TRSets <- NoTR
  FalsyOverlays = FALSE
  MaxFaults = 1
INVARIANT R1_Faults
INVARIANT EmitF
CHECK_DEADLOCK FALSE
