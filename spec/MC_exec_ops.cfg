SPECIFICATION Spec
CONSTANTS
  Types <- TypesExec
  Roots <- RootsExec
  MaxSel = 4
  MaxDepth = 3
  MaxFrags = 1
  MaxOps = 2
  OpTypes = {"query", "mutation"}
  FieldAlpha <- AlphaOps
  Aliases = {""}
  Conds = {"T"}
  DirOpts <- DirsVarOnly
  ArgOpts <- ArgOptsNone
  VarTypes <- VarTypesStd
  VarVals <- VarValsStd
  MaxOverlay = 0
  TRSets <- NoTR
  FalsyOverlays = FALSE
INVARIANT R1_Exec
INVARIANT Emit
CHECK_DEADLOCK FALSE
