SPECIFICATION Spec
CONSTANTS
  Types <- TypesExec2
  Roots <- RootsExec2
  MaxSel = 3
  MaxDepth = 3
  MaxFrags = 0
  MaxOps = 1
  OpTypes = {"mutation"}
  FieldAlpha <- AlphaS2M
  Aliases = {"", "z"}
  Conds = {""}
  DirOpts <- NoDirs
  ArgOpts <- ArgOptsS2
  VarTypes <- VarTypesS2
  VarVals <- VarValsS2
  MaxOverlay = 0
  TRSets <- NoTR
  FalsyOverlays = FALSE
INVARIANT R1_Exec
INVARIANT Emit
CHECK_DEADLOCK FALSE
