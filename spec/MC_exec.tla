------------------------------ MODULE MC_exec -------------------------------
(* R1 + R2 configuration for C01 / C06 (fault-free execution of valid documents):
   generator of valid documents over S_exec, choice of operation, variables and a
   benign data overlay (nulls at nullable positions, list lengths, runtime types);
   the big-step semantics predicts data and resolver calls; every terminal state is
   printed as one JSON case.                                                      *)
EXTENDS GenDoc, SExec, SExec2, Json

CONSTANTS MaxOverlay,    \* number of benign overlay entries (0..MaxOverlay)
          FalsyOverlays, \* whether the benign overlays include falsy-but-present values (0, "", false, 0.0)
          TRSets         \* the sets of registered custom type resolvers to explore (see GQL!EffectiveRT)

Lit(t, v) == [t |-> t, v |-> v]
Dir(n, l) == [name |-> n, val |-> l]
ArgV(n, l) == [name |-> n, val |-> l]

\* ---- alphabets (substituted in the .cfg files) --------------------------------
NoDirs == {<<>>}
DirsLit == {<<>>, <<Dir("skip", Lit("bool", TRUE))>>, <<Dir("include", Lit("bool", FALSE))>>,
            <<Dir("skip", Lit("bool", FALSE)), Dir("include", Lit("bool", TRUE))>>,
            \* both directives on one selection, the LATER one excluding it
            <<Dir("include", Lit("bool", TRUE)), Dir("skip", Lit("bool", TRUE))>>, <<Dir("skip", Lit("bool", FALSE)), Dir("include", Lit("bool", FALSE))>>}
DirsVar == {<<>>, <<Dir("skip", Lit("var", "v"))>>, <<Dir("include", Lit("var", "w"))>>}
DirsBoth == DirsLit \cup DirsVar
DirsSkipT == {<<>>, <<Dir("skip", Lit("bool", TRUE))>>}
DirsVarOnly == {<<>>, <<Dir("skip", Lit("var", "v"))>>}
VarTypesStd == [ v |-> [type |-> <<"NN", "Boolean">>, hasDefault |-> FALSE, default |-> NoLit],
                 w |-> [type |-> <<"Boolean">>, hasDefault |-> TRUE, default |-> Lit("bool", TRUE)],
                 n |-> [type |-> <<"Int">>, hasDefault |-> FALSE, default |-> NoLit],
                 m |-> [type |-> <<"NN", "Int">>, hasDefault |-> FALSE, default |-> NoLit],
                 x |-> [type |-> <<"String">>, hasDefault |-> TRUE, default |-> Lit("str", "vd")],
                 y |-> [type |-> <<"Int">>, hasDefault |-> TRUE, default |-> Lit("int", 2)] ]
VarValsStd == [ v |-> {Bool(TRUE), Bool(FALSE)}, w |-> {Bool(FALSE)}, n |-> {Int(3), Null}, m |-> {Int(4)}, x |-> {Str("xs"), Null}, y |-> {Int(5), Null} ]
ArgOptsStd == [ f |-> {<<>>, <<ArgV("a", Lit("int", 1))>>, <<ArgV("b", Lit("str", "q")), ArgV("a", Lit("var", "n"))>>,
                       <<ArgV("b", Lit("var", "x"))>>, <<ArgV("b", Lit("null", 0))>>},
                g |-> {<<ArgV("r", Lit("int", 2))>>, <<ArgV("r", Lit("var", "m"))>>} ]
ArgOptsNone == [ f |-> {<<>>}, g |-> {<<ArgV("r", Lit("int", 2))>>} ]

AllTypeNames == DOMAIN TypesExec
AlphaOf(f) == [tn \in AllTypeNames |-> IF tn \in DOMAIN f THEN f[tn] ELSE {}]

\* feature groups
AlphaBasic == AlphaOf([Query |-> {"o", "s", "lo"}, T |-> {"s", "o", "d"}])
AlphaAbstract == AlphaOf([Query |-> {"p", "lp", "u"}, P |-> {"s", "__typename"}, A |-> {"a", "s"}, B |-> {"b", "d"}, C |-> {"c"}, U |-> {"__typename"}])
AlphaTypeRes == AlphaOf([Query |-> {"p", "lp", "lnp", "u", "lu"}, T |-> {"p"}, P |-> {"__typename", "p"}, A |-> {"a"}, B |-> {"b"}, U |-> {"__typename"}])
\* a fragment on an interface under a field of an implementing object type ("widening"), then values of the other implementers
AlphaWiden == AlphaOf([Query |-> {"a", "lp"}, A |-> {"s"}, P |-> {"s"}, B |-> {"b"}])
AlphaLists == AlphaOf([Query |-> {"lo", "lnn", "nl", "ll", "le", "ls"}, T |-> {"s", "lo", "e"}])
AlphaArgs == AlphaOf([Query |-> {"f", "g", "o"}, T |-> {"f", "g"}])
AlphaFrag == AlphaOf([Query |-> {"o", "p"}, T |-> {"s", "o"}, P |-> {"s"}, A |-> {"a"}, B |-> {"b"}])
AlphaDirs == AlphaOf([Query |-> {"o", "s"}, T |-> {"s"}])
AlphaOps == AlphaOf([Query |-> {"o", "s"}, Mutation |-> {"m1", "m3"}, T |-> {"s"}])
AlphaFragQ == AlphaOf([Query |-> {"o", "s"}, T |-> {"s"}])
\* fault-enumeration alphabets: every nullability layout between a fault and the root
AlphaLayout == AlphaOf([Query |-> {"o", "on", "lo", "lnn", "nl", "nlnn", "ll", "lln", "sn", "ls", "e", "le"}, T |-> {"s", "sn"}])
AlphaNested == AlphaOf([Query |-> {"o", "on", "lnn"}, T |-> {"sn", "on", "lo", "i"}])
AlphaAbstractF == AlphaOf([Query |-> {"p", "np", "lp", "lu"}, P |-> {"s"}, A |-> {"an"}, B |-> {"d"}, U |-> {"__typename"}])
AlphaPairs == AlphaOf([Query |-> {"o", "on", "s"}, T |-> {"s", "sn"}])
AlphaMutF == AlphaOf([Mutation |-> {"m1", "m2", "m3", "m4"}, T |-> {"sn"}])
AlphaArgsF == AlphaOf([Query |-> {"g", "o", "on"}, T |-> {"g", "s"}])
AlphaGdF == AlphaOf([Query |-> {"gd", "gd2", "h", "on"}, T |-> {"s"}])
\* a nullable variable with a default is allowed at a non-null argument; an explicit null then
\* fails the argument coercion of that field at run time
ArgOptsFail == [ f |-> {<<>>}, g |-> {<<ArgV("r", Lit("var", "y"))>>, <<ArgV("r", Lit("int", 2))>>},
                 gd2 |-> {<<>>, <<ArgV("a", Lit("int", 1))>>},
                 h |-> {<<ArgV("i", [t |-> "obj", v |-> << <<"r", Lit("int", 1)>>, <<"q", Lit("int", 13)>> >>])>>,
                        <<ArgV("i", [t |-> "obj", v |-> << <<"r", Lit("int", 1)>>, <<"q", Lit("int", 1)>> >>])>>,
                        <<ArgV("i", [t |-> "obj", v |-> << <<"r", Lit("int", 1)>>, <<"n", [t |-> "obj", v |-> << <<"r", Lit("int", 2)>>, <<"q", Lit("int", 13)>> >>]>> >>])>>},
                 gd |-> {<<ArgV("a", Lit("int", 13))>>, <<ArgV("a", Lit("int", 1))>>, <<ArgV("b", Lit("str", "q")), ArgV("a", Lit("int", 13))>>} ]
AlphaSched == AlphaOf([Query |-> {"o", "lo", "s"}, T |-> {"s", "o"}])
AlphaSchedF == AlphaOf([Query |-> {"o", "on", "lnn", "s"}, T |-> {"s", "sn"}])
AlphaSchedF2 == AlphaOf([Query |-> {"o", "on", "s"}, T |-> {"sn", "s"}])
AlphaSchedM == AlphaOf([Mutation |-> {"m1", "m2", "m3", "m4", "ml"}, T |-> {"s", "sn"}])
AlphaSchedM2 == AlphaOf([Mutation |-> {"m1", "m3", "ml"}, T |-> {"s"}])
AlphaMultiV == AlphaOf([Query |-> {"f", "s"}])
ArgOptsMulti == [ f |-> {<<ArgV("a", Lit("var", "n"))>>, <<ArgV("b", Lit("var", "x"))>>}, g |-> {<<ArgV("r", Lit("int", 2))>>} ]
AlphaMultiN == AlphaOf([Query |-> {"o"}, T |-> {"s", "d"}])
AlphaMultiO == AlphaOf([Query |-> {"o", "s"}, T |-> {"s"}])
AlphaMultiF == AlphaOf([Query |-> {"on", "lnn", "s"}, T |-> {"sn"}])
AlphaMultiT == AlphaOf([Query |-> {"on", "lo", "s"}])
OKinds == {[o |-> "raise"], [o |-> "null"], [o |-> "len", n |-> 1]}
AlphaMultiD == AlphaOf([Query |-> {"s", "o"}, T |-> {"s"}])
DirsMixW == {<<>>, <<Dir("include", Lit("bool", TRUE))>>, <<Dir("skip", Lit("var", "v"))>>, <<Dir("include", Lit("var", "w"))>>}
VarValsBoolBoth == [ v |-> {Bool(TRUE), Bool(FALSE)}, w |-> {Bool(TRUE), Bool(FALSE)}, n |-> {Int(3)}, m |-> {Int(4)}, x |-> {Str("xs")}, y |-> {Int(5)} ]
AlphaSimF == AlphaOf([Query |-> {"o", "on", "s"}, T |-> {"s", "d", "i", "sn"}])
AlphaFalsy == AlphaOf([Query |-> {"s", "i", "bo", "fl", "idf", "o", "lp"}, T |-> {"d", "i"}, P |-> {"s"}, B |-> {"d"}])
AlphaLong == AlphaOf([Query |-> {"lo"}, T |-> {"o", "i"}])
\* two operations, each with its own fragments and its own variable (one Boolean in a directive, one Int in an argument)
AlphaOps2 == AlphaOf([Query |-> {"f", "s"}])
ArgOptsOps2 == [ f |-> {<<ArgV("a", Lit("var", "n"))>>}, g |-> {<<ArgV("r", Lit("int", 2))>>} ]
AlphaSchedP == AlphaOf([Query |-> {"lp"}, P |-> {"o"}, A |-> {"o"}, T |-> {"s", "d"}])
AlphaCs == AlphaOf([Query |-> {"cs", "csn", "lcs", "o", "on"}, T |-> {"csn", "s"}])
AlphaCsM == AlphaOf([Mutation |-> {"mcs", "mln", "m1"}, T |-> {"csn", "sn"}])
\* input object literals holding a variable that may have a value, be null, or have no value at all
AlphaObjLit == AlphaOf([Query |-> {"h", "s"}])
ArgOptsObjLit == [ f |-> {<<>>}, g |-> {<<>>},
                   h |-> {<<ArgV("i", [t |-> "obj", v |-> << <<"r", Lit("int", 1)>>, <<"q", Lit("var", "n")>> >>])>>,
                          \* (fields written in the order the input type declares them: the order of the delivered dictionary is not modelled)
                          <<ArgV("i", [t |-> "obj", v |-> << <<"r", Lit("var", "m")>>, <<"q", Lit("var", "n")>> >>])>>,
                          <<ArgV("i", [t |-> "obj", v |-> << <<"r", Lit("int", 1)>>, <<"l", [t |-> "list", v |-> <<Lit("int", 2), Lit("var", "n")>>]>> >>])>>,
                          <<ArgV("i", [t |-> "obj", v |-> << <<"r", Lit("int", 1)>>, <<"n", [t |-> "obj", v |-> << <<"r", Lit("int", 2)>>, <<"q", Lit("var", "n")>> >>]>> >>])>>} ]
OKindsRaise == {[o |-> "raise"]}
VarValsSmall == [ v |-> {Bool(TRUE), Bool(FALSE)}, w |-> {Bool(FALSE)}, n |-> {Int(3)}, m |-> {Int(4)}, x |-> {Str("xs")}, y |-> {Int(5)} ]
AlphaSub == AlphaOf([Subscription |-> {"ev", "evs"}, T |-> {"s", "sn"}])
AlphaSub3 == AlphaOf([Subscription |-> {"ev", "evn"}, T |-> {"sn"}])
AlphaSub2 == AlphaOf([Subscription |-> {"ev"}, T |-> {"s", "o"}])
ArgOptsSub == [ f |-> {<<>>}, g |-> {<<>>}, ev |-> {<<>>, <<ArgV("a", Lit("var", "m"))>>, <<ArgV("b", Lit("str", "q")), ArgV("a", Lit("int", 1))>>,
                                                   <<ArgV("b", Lit("var", "x")), ArgV("a", Lit("var", "y"))>>} ]
ArgOptsSub3 == [ f |-> {<<>>}, g |-> {<<>>}, ev |-> {<<>>, <<ArgV("b", Lit("var", "x")), ArgV("a", Lit("var", "y"))>>} ]
EvKinds == {[o |-> "raise"], [o |-> "null"], [o |-> "exc"]}
EvKinds2 == {[o |-> "raise"], [o |-> "null"]}
AlphaAll == AlphaOf([Query |-> {"o", "on", "lo", "lnn", "ll", "p", "lp", "u", "lu", "s", "sn", "i", "e", "le", "ls", "f", "g", "__typename"},
                     T |-> {"s", "sn", "i", "d", "o", "lo", "p", "e", "f", "__typename"}, P |-> {"s", "o", "p", "__typename"},
                     A |-> {"s", "a", "an", "p"}, B |-> {"s", "b", "d"}, C |-> {"s", "c"}, U |-> {"__typename"},
                     Mutation |-> {"m1", "m2", "m3", "ml"}])
\* merged sub-selections differing per runtime type (lists of an abstract type, type-conditioned fragments)
AlphaMerge == AlphaOf([Query |-> {"lp"}, P |-> {"o"}, A |-> {"o"}, B |-> {"o"}, T |-> {"s", "d"}])
AlphaMergeT == AlphaOf([Query |-> {"lp"}, P |-> {"o", "__typename"}, A |-> {"o"}, T |-> {"s", "d"}])
AlphaMerge2 == AlphaOf([Query |-> {"lo", "o"}, T |-> {"o", "s", "d"}])
AlphaAllF == [AlphaAll EXCEPT !.Query = @ \cup {"gd", "gd2"}]
ArgOptsStdF == [x \in DOMAIN ArgOptsStd \cup {"gd", "gd2"} |->
                  IF x = "gd" THEN {<<ArgV("a", Lit("int", 13))>>, <<ArgV("a", Lit("int", 1))>>}
                  ELSE IF x = "gd2" THEN {<<>>, <<ArgV("a", Lit("int", 1))>>} ELSE ArgOptsStd[x]]
AlphaSchedMA == AlphaOf([Mutation |-> {"mg", "mgn", "m3", "m1"}, T |-> {"s"}])
ArgOptsMA == [ f |-> {<<>>}, g |-> {<<ArgV("r", Lit("var", "y"))>>}, mg |-> {<<ArgV("r", Lit("var", "y"))>>, <<ArgV("r", Lit("int", 2))>>}, mgn |-> {<<ArgV("r", Lit("var", "y"))>>} ]
\* the same field at several places with different arguments (argument dictionaries must not be shared)
AlphaMutArgs == AlphaOf([Mutation |-> {"m1"}, T |-> {"f"}])
AlphaSchedA == AlphaOf([Query |-> {"o"}, T |-> {"f"}])
ArgOptsFew == [ f |-> {<<>>, <<ArgV("a", Lit("int", 1))>>, <<ArgV("b", Lit("str", "q"))>>}, g |-> {<<ArgV("r", Lit("int", 2))>>} ]
\* variables reaching a directive only through two levels of fragment spreads
AlphaFragVar == AlphaOf([Query |-> {"o"}, T |-> {"s"}])
DirsMix == {<<>>, <<Dir("include", Lit("bool", TRUE))>>, <<Dir("skip", Lit("var", "v"))>>}
AlphaDirs2 == AlphaOf([Query |-> {"o"}, T |-> {"s", "d"}])
\* ---- second schema (SExec2) --------------------------------------------------------------------------
AlphaOf2(f) == [tn \in DOMAIN TypesExec2 |-> IF tn \in DOMAIN f THEN f[tn] ELSE {}]
AlphaS2 == AlphaOf2([RootQ |-> {"node", "nodes", "find", "n", "k"}, Node |-> {"id", "next", "__typename"}, Leaf |-> {"v", "tags", "d"}, Branch |-> {"kids", "kind"}, Thing |-> {"__typename"}])
AlphaS2G == AlphaOf2([RootQ |-> {"grid", "nodes", "k"}, Leaf |-> {"v", "tags", "id"}, Node |-> {"id"}])
AlphaS2M == AlphaOf2([RootM |-> {"bump", "leaf"}, Leaf |-> {"id", "v"}])
ArgOptsS2 == [ find |-> {<<ArgV("id", Lit("str", "x1"))>>, <<ArgV("kind", Lit("enum", "K2")), ArgV("id", Lit("str", "x5"))>>, <<ArgV("id", Lit("var", "i"))>>},
               bump |-> {<<>>, <<ArgV("by", Lit("int", 3))>>, <<ArgV("by", Lit("var", "n"))>>} ]
VarTypesS2 == [ i |-> [type |-> <<"NN", "ID">>, hasDefault |-> FALSE, default |-> NoLit], n |-> [type |-> <<"Int">>, hasDefault |-> FALSE, default |-> NoLit] ]
VarValsS2 == [ i |-> {Str("vi")}, n |-> {Int(4), Null} ]
AllFieldNames == UNION {DOMAIN TypesExec[tn].fields : tn \in DOMAIN TypesExec}
SomeFieldNames == {"o", "sn", "m2", "m3", "lnn"}
AlphaMut == AlphaOf([Mutation |-> {"m1", "m3", "ml"}, T |-> {"s", "o"}])

\* ---- pick phase ------------------------------------------------------------------
OpIds == {i \in 1..Len(nodes) : nodes[i].k = "OP"}

BaseC(op, vs) == [nodes |-> nodes, op |-> op, vars |-> vs, overlay |-> <<>>, trs |-> {}]
NoTR == {{}}
AllTR == SUBSET {"field", "type", "engine"}

\* benign outcomes applicable at a position of the overlay-free response tree
BenignAt(p) ==
  LET t == p.type
      core == IF IsNN(t) THEN Tail(t) ELSE t IN
  IF "dres" \in DOMAIN p THEN {} ELSE
  (IF ~IsNN(t) THEN {[o |-> "null"]} ELSE {})
  \cup (IF ~IsNN(t) /\ ~IsList(core) /\ Named(core) = "Cs" THEN {[o |-> "blank"]} ELSE {})
  \cup (IF IsList(core) THEN {[o |-> "len", n |-> 0], [o |-> "len", n |-> 1], [o |-> "len", n |-> 3]} ELSE {})
  \* a long list (more items than any small pool / limit an implementation might have)
  \* (only in the configuration that sets MaxOverlay = 2: long lists make every evaluation slow)
  \cup (IF MaxOverlay >= 2 /\ IsList(core) /\ ~IsList(IF IsNN(Tail(core)) THEN Tail(Tail(core)) ELSE Tail(core)) THEN {[o |-> "len", n |-> 40]} ELSE {})
  \cup (IF ~IsList(core) /\ IsAbstract(Named(core)) THEN {[o |-> "rt", tn |-> x] : x \in Possible(Named(core))} ELSE {})
  \* falsy-but-present values: 0 / "" / false / 0.0 from a resolver, "" in a default-resolved attribute
  \cup (IF FalsyOverlays /\ ~IsList(core) /\ Named(core) \in {"Int", "Float", "Boolean", "String", "ID"} THEN {[o |-> "falsy"]} ELSE {})
  \cup (IF FalsyOverlays /\ ~IsList(core) /\ IsComposite(Named(core))
            /\ (\E rt \in Possible(Named(core)) : \E f \in DOMAIN Types[rt].fields : Types[rt].fields[f].res = "D")
        THEN {[o |-> "emptyd"]} ELSE {})

Overlays(C0) ==
  LET ps == BigStep(C0).pos IN
  {<<>>} \cup (IF MaxOverlay >= 1 THEN { (p.path :> o) : p \in ps, o \in UNION {BenignAt(q) : q \in ps} } ELSE {})

Pick ==
  /\ phase = "pick"
  /\ \E op \in OpIds :
       \E g \in Assignments(nodes, op) :
         /\ GoodAssignment(nodes, op, g)
         /\ LET C0 == BaseC(op, CoercedVars(nodes, op, g)) IN
            \E p \in BigStep(C0).pos \cup {[path |-> <<>>, type |-> <<"X">>]} :
              \E o \in (IF p.path = <<>> \/ MaxOverlay = 0 THEN {[o |-> "none"]} ELSE BenignAt(p)) :
                \E trs \in TRSets :
                pick' = [op |-> op, given |-> g, trs |-> trs,
                         overlay |-> IF o.o = "none" THEN <<>> ELSE (p.path :> o)]
  /\ phase' = "done" /\ UNCHANGED nodes

Next == AddOp \/ AddFrag \/ AddField \/ AddInline \/ AddSpread \/ Finish \/ Pick
Spec == Init /\ [][Next]_gvars

Ctx == [nodes |-> nodes, op |-> pick.op, vars |-> CoercedVars(nodes, pick.op, pick.given), overlay |-> pick.overlay,
        trs |-> IF "trs" \in DOMAIN pick THEN pick.trs ELSE {}]

\* ---- R1: properties of the specification itself --------------------------------
RECURSIVE KeysOf(_)
KeysOf(v) == IF v.t = "O" THEN [i \in 1..Len(v.v) |-> v.v[i][1]] ELSE <<>>
NoDupKeys(v) ==
  IF v.t = "O" THEN (\A i, j \in 1..Len(v.v) : i # j => v.v[i][1] # v.v[j][1]) ELSE TRUE

\* calls: exactly one per response path
CallsUnique(cs) == \A i, j \in 1..Len(cs) : i # j => cs[i].path # cs[j].path

R1_Exec == phase = "done" =>
  LET b == BigStep(Ctx) IN
  /\ b.errs = {}                         \* valid, fault-free requests have no errors
  /\ ~IsNull(b.data)
  /\ NoDupKeys(b.data)
  /\ CallsUnique(b.calls)
  \* first-appearance order of root keys = order of Collect
  /\ KeysOf(b.data) = [i \in 1..Len(Collect(Ctx, RootType(Ctx), <<Ctx.op>>)) |-> Collect(Ctx, RootType(Ctx), <<Ctx.op>>)[i][1]]

OverlayJson(ov) == [p \in DOMAIN ov |-> ov[p]]
PairsOf(f) == LET S == DOMAIN f IN {<<x, f[x]>> : x \in S}

ASSUME PrintT(ToJson([kind |-> "schema", types |-> Types, roots |-> Roots]))

Emit == phase = "done" =>
  LET b == BigStep(Ctx) IN
  PrintT(ToJson([kind |-> "case", nodes |-> nodes, op |-> pick.op,
                 given |-> PairsOf(pick.given), overlay |-> PairsOf(pick.overlay), trs |-> Ctx.trs,
                 cvars |-> PairsOf(Ctx.vars), data |-> b.data, errs |-> b.errs, nulls |-> b.nulls, calls |-> b.calls]))
=============================================================================
