------------------------------ MODULE MC_schema ------------------------------
(* R1 + R2 configuration for C11 (introspection image of every generated model) and C12
   (every break of every checked rule at every catalogued site).                     *)
EXTENDS SchemaModel, Json, Integers

CONSTANTS MaxSteps,    \* number of variation steps applied to the base model
          BreakSteps,  \* breaks are applied to models reached within this many steps (-1: never)
          EmitModels   \* print the well-formed models (C11)

Never == -1

VARIABLES pieces, steps, brk
mvars == <<pieces, steps, brk>>
NoBrk == [rule |-> "", site |-> "", pieces |-> <<>>]
Init == pieces = BasePieces /\ steps = 0 /\ brk = NoBrk
\* a second variation may clash with the first (the same member added twice): the generator is guarded to stay well-formed
Vary == brk.rule = "" /\ steps < MaxSteps /\ pieces' \in Variations(pieces) /\ WellFormed(pieces') /\ steps' = steps + 1 /\ UNCHANGED brk
Break == brk.rule = "" /\ steps <= BreakSteps /\ brk' \in Breaks(pieces) /\ UNCHANGED <<pieces, steps>>
Next == Vary \/ Break
Spec == Init /\ [][Next]_mvars

R1_WellFormed == brk.rule = "" => WellFormed(pieces)
R1_Broken == brk.rule # "" => ~SHolds(brk.rule, brk.pieces)
\* nothing declared is missing from the image, nothing extra appears
R1_ImageExact == brk.rule = "" =>
  LET n == Normalise(pieces) IN
  /\ {t.name : t \in Image(n).types} = DeclaredTypeNames(n)
  /\ \A i \in Idxs(n) : n[i].kind \in TypeKinds =>
        \E t \in Image(n).types : t.name = n[i].name
             /\ {f.name : f \in t.fields} = {n[i].fields[k].name : k \in {j \in Idxs(n[i].fields) : ~n[i].fields[j].hidden}}
             /\ {v.name : v \in t.values} = NamesOf(n[i].values)
             /\ {a.name : a \in t.inputs} = NamesOf(n[i].inputs)

Emit ==
  IF brk.rule = "" THEN (EmitModels => PrintT(ToJson([kind |-> "model", steps |-> steps, pieces |-> pieces, introspectable |-> Introspectable(pieces), image |-> Image(Normalise(pieces))])))
  ELSE PrintT(ToJson([kind |-> "broken", rule |-> brk.rule, site |-> brk.site, pieces |-> brk.pieces]))
=============================================================================
