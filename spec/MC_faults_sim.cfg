SPECIFICATION SpecF
CONSTANTS
  Types <- TypesExec
  Roots <- RootsExec
  MaxSel = 9
  MaxDepth = 4
  MaxFrags = 1
  MaxOps = 1
  OpTypes = {"query", "mutation"}
  FieldAlpha <- AlphaAll
  Aliases = {"", "z"}
  Conds = {"", "T", "P", "A", "B", "C", "U"}
  DirOpts <- NoDirs
  ArgOpts <- ArgOptsStd
  VarTypes <- VarTypesStd
  VarVals <- VarValsStd
  MaxOverlay = 0
  TRSets <- NoTR
  FalsyOverlays = FALSE
  MaxFaults = 1
INVARIANT R1_Faults
INVARIANT EmitF
CHECK_DEADLOCK FALSE
