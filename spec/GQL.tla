-------------------------------- MODULE GQL ---------------------------------
(* Functional core: schema access, executable documents as a flat pre-order node
   table, CollectFields, and the declarative big-step execution semantics
   (ExecuteSelectionSet / ExecuteField / CompleteValue with error propagation) of the
   June-2018 specification, at the grain tartiflette implements it.

   A request context C is the record
     [nodes, op, vars, overlay]
   nodes   : the document (Seq(Node), pre-order, parent pointers)
   op      : id of the selected operation node
   vars    : coerced variable values, a function on the names that have a value
   overlay : function  response path -> outcome  overriding the default resolver data   *)
EXTENDS Values

CONSTANTS Types,   \* type name -> [kind, fields, possible, values, way]
          Roots    \* [query, mutation, subscription] -> type name ("" when absent)

------------------------------------------------------------------------------
(* Type references: <<"NN","L","NN","T">> = [T!]!                              *)
Named(t)   == t[Len(t)]
IsNN(t)    == t[1] = "NN"
IsList(t)  == t[1] = "L"
KindOf(n)  == Types[n].kind
IsComposite(n) == KindOf(n) \in {"OBJECT", "INTERFACE", "UNION"}
IsAbstract(n)  == KindOf(n) \in {"INTERFACE", "UNION"}
IsLeaf(n)      == KindOf(n) \in {"SCALAR", "ENUM"}
Possible(n)    == IF KindOf(n) = "OBJECT" THEN {n} ELSE Types[n].possible
HasFields(n)   == KindOf(n) \in {"OBJECT", "INTERFACE"}
FieldNames(n)  == IF HasFields(n) THEN DOMAIN Types[n].fields ELSE {}

TypenameDef == [type |-> <<"NN", "String">>, args |-> <<>>, res |-> "M"]
FieldDef(tn, f) == IF f = "__typename" THEN TypenameDef ELSE Types[tn].fields[f]

\* DoesFragmentTypeApply(objectType, fragmentType)
TypeApplies(rt, cond) == rt \in Possible(cond)

------------------------------------------------------------------------------
(* Documents.  Node = [k, parent, name, alias, cond, args, dirs, vdefs, optype]
   k \in {"OP","FRAG","F","I","S"}.  Definitions have parent = 0.                   *)
Children(ns, i) == SelectSeq([j \in 1..Len(ns) |-> j], LAMBDA j : ns[j].parent = i)
Key(n) == IF n.alias = "" THEN n.name ELSE n.alias
FragId(ns, name) == CHOOSE j \in 1..Len(ns) : ns[j].k = "FRAG" /\ ns[j].name = name
HasFrag(ns, name) == \E j \in 1..Len(ns) : ns[j].k = "FRAG" /\ ns[j].name = name

\* value of a literal under the variable assignment (leaf literals only here; the
\* full input coercion lives in InputCoercion.tla)
RECURSIVE LitValue(_, _)
LitValue(C, lit) ==
  IF lit.t = "var" THEN (IF lit.v \in DOMAIN C.vars THEN C.vars[lit.v] ELSE Absent)
  ELSE IF lit.t = "int" THEN Int(lit.v)
  ELSE IF lit.t = "str" THEN Str(lit.v)
  ELSE IF lit.t = "bool" THEN Bool(lit.v)
  ELSE IF lit.t = "enum" THEN Enum(lit.v)
  ELSE IF lit.t = "list" THEN Lst([i \in 1..Len(lit.v) |-> LET x == LitValue(C, lit.v[i]) IN IF IsAbsent(x) THEN Null ELSE x])
  ELSE IF lit.t = "obj" THEN
       LET idx == SelectSeq([i \in 1..Len(lit.v) |-> i], LAMBDA i : ~IsAbsent(LitValue(C, lit.v[i][2]))) IN
       Obj([j \in 1..Len(idx) |-> <<lit.v[idx[j]][1], LitValue(C, lit.v[idx[j]][2])>>])
  ELSE Null

\* @skip / @include (skip has precedence; both must allow)
DirAllows(C, d) ==
  LET v == LitValue(C, d.val) IN
  IF v.t # "B" THEN FALSE                    \* D6: a failing evaluation skips the selection
  ELSE IF d.name = "skip" THEN ~v.v ELSE v.v
Included(C, n) == \A i \in 1..Len(n.dirs) : DirAllows(C, n.dirs[i])

------------------------------------------------------------------------------
(* CollectFields: grouped = Seq(<<responseKey, Seq(nodeId)>>) in first-appearance
   order; visited fragment names are shared across the merged selection sets.      *)
AddKey(acc, key, id) ==
  IF \E i \in 1..Len(acc) : acc[i][1] = key
  THEN [i \in 1..Len(acc) |-> IF acc[i][1] = key THEN <<key, Append(acc[i][2], id)>> ELSE acc[i]]
  ELSE Append(acc, <<key, <<id>>>>)

RECURSIVE CollectSel(_, _, _, _)
CollectSel(C, rt, sel, st) ==
  IF sel = <<>> THEN st ELSE
  LET k == Head(sel)
      n == C.nodes[k]
      rest == Tail(sel) IN
  IF ~Included(C, n) THEN CollectSel(C, rt, rest, st)
  ELSE IF n.k = "F" THEN
       CollectSel(C, rt, rest, [st EXCEPT !.acc = AddKey(st.acc, Key(n), k)])
  ELSE IF n.k = "I" THEN
       IF (IF n.cond = "" THEN TRUE ELSE TypeApplies(rt, n.cond))
       THEN CollectSel(C, rt, rest, CollectSel(C, rt, Children(C.nodes, k), st))
       ELSE CollectSel(C, rt, rest, st)
  ELSE \* fragment spread
       IF n.name \in st.visited THEN CollectSel(C, rt, rest, st)
       ELSE LET st2 == [st EXCEPT !.visited = @ \cup {n.name}] IN
            IF ~HasFrag(C.nodes, n.name) THEN CollectSel(C, rt, rest, st2)
            ELSE LET fd == FragId(C.nodes, n.name) IN
                 IF TypeApplies(rt, C.nodes[fd].cond)
                 THEN CollectSel(C, rt, rest, CollectSel(C, rt, Children(C.nodes, fd), st2))
                 ELSE CollectSel(C, rt, rest, st2)

RECURSIVE CollectMultiR(_, _, _, _)
CollectMultiR(C, rt, ids, st) ==
  IF ids = <<>> THEN st
  ELSE CollectMultiR(C, rt, Tail(ids), CollectSel(C, rt, Children(C.nodes, Head(ids)), st))
\* merged sub-selections of the field nodes `ids` (for the root: <<operation id>>)
Collect(C, rt, ids) == CollectMultiR(C, rt, ids, [acc |-> <<>>, visited |-> {}]).acc

------------------------------------------------------------------------------
(* Argument coercion, simple form (well-typed leaf literals, variables, defaults).  *)
ArgNode(node, name) ==
  LET S == {i \in 1..Len(node.args) : node.args[i].name = name} IN
  IF S = {} THEN 0 ELSE CHOOSE i \in S : TRUE

ArgEff(C, a, node) ==
  LET i == ArgNode(node, a.name)
      v == IF i = 0 THEN Absent ELSE LitValue(C, node.args[i].val) IN
  IF IsAbsent(v) /\ a.hasDefault THEN LitValue(C, a.default) ELSE v

\* an input object value of type In whose guarded field q holds 13 (at the top level or in the nested object n)
RECURSIVE BoomIn(_)
BoomIn(v) == v.t = "O" /\ \E k \in 1..Len(v.v) : (v.v[k][1] = "q" /\ v.v[k][2] = Int(13)) \/ (v.v[k][1] = "n" /\ BoomIn(v.v[k][2]))

CoerceArgs(C, fdef, node) ==
  LET n == Len(fdef.args)
      eff == [i \in 1..n |-> ArgEff(C, fdef.args[i], node)]
      bad == {i \in 1..n : IsNN(fdef.args[i].type) /\ (IsAbsent(eff[i]) \/ IsNull(eff[i]))}
             \* an argument-definition directive whose hook raises for the value 13 (see SExec!GdArgs): the field fails, no call
             \cup {i \in 1..n : "dirs" \in DOMAIN fdef.args[i] /\ eff[i] = Int(13)}
             \cup {i \in 1..n : fdef.args[i].type = <<"In">> /\ ~IsAbsent(eff[i]) /\ BoomIn(eff[i])}
      keep == SelectSeq([i \in 1..n |-> i], LAMBDA i : ~IsAbsent(eff[i])) IN
  [ok |-> bad = {},
   v  |-> [j \in 1..Len(keep) |-> <<fdef.args[keep[j]].name, eff[keep[j]]>>]]

------------------------------------------------------------------------------
(* Resolver data.  Raw values:
     [r |-> "obj", id, tn, d] object marker (id = joined response path, tn = runtime type,
                             d = the value its default-resolved field "d" carries)
     [r |-> "leaf", v]       a leaf value (already a wire value)
     [r |-> "list", v]       list of raw values
     [r |-> "null"]          None
     [r |-> "raise"|"raiseLib"]   the resolver raises (plain / library error)
     [r |-> "exc"]           an exception instance returned as a value
     [r |-> "bad"]           a value the leaf type cannot serialise
     [r |-> "nonlist"]       a non-list where a list is declared
   The default rule below is overridden position-wise by C.overlay.                *)
RECURSIVE VStr(_), VStrSeq(_), VStrPairs(_)
VStrSeq(sq) == IF sq = <<>> THEN "" ELSE VStr(sq[1]) \o (IF Len(sq) > 1 THEN "," ELSE "") \o VStrSeq(Tail(sq))
VStrPairs(sq) == IF sq = <<>> THEN "" ELSE sq[1][1] \o ":" \o VStr(sq[1][2]) \o (IF Len(sq) > 1 THEN "," ELSE "") \o VStrPairs(Tail(sq))
VStr(v) == IF v.t = "N" THEN "null"
           ELSE IF v.t = "B" THEN (IF v.v THEN "true" ELSE "false")
           ELSE IF v.t = "I" THEN ToString(v.v)
           ELSE IF v.t = "L" THEN "[" \o VStrSeq(v.v) \o "]"
           ELSE IF v.t = "O" THEN "{" \o VStrPairs(v.v) \o "}"
           ELSE v.v
RECURSIVE ArgStrR(_)
ArgStrR(a) == IF a = <<>> THEN ""
              ELSE a[1][1] \o "=" \o VStr(a[1][2]) \o (IF Len(a) > 1 THEN "," ELSE "") \o ArgStrR(Tail(a))
ArgStr(a) == IF a = <<>> THEN "" ELSE "(" \o ArgStrR(a) \o ")"

PossibleSeq(n) == Types[n].possibleSeq

(* Type resolver precedence.  C.trs (optional) is the set of registered custom type resolvers:
     "field"  the `type_resolver` argument of @Resolver on the fields of FieldTR  - answers the value's own type
     "type"   @TypeResolver on the abstract types of TypeTR                        - answers the LAST possible type
     "engine" custom_default_type_resolver of the engine                            - answers the FIRST possible type
   none of them: the built-in resolution (the value names its type: _typename key / attribute / class name).
   The most specific one registered for the position wins.                                                *)
FieldTR == {"Query.p", "Query.lp", "Query.np", "Query.lnp"}
TypeTR == {"P"}
TRS(C) == IF "trs" \in DOMAIN C THEN C.trs ELSE {}
FK(C) == IF "fk" \in DOMAIN C THEN C.fk ELSE ""
SetFK(C, v) == [x \in DOMAIN C \cup {"fk"} |-> IF x = "fk" THEN v ELSE C[x]]
EffectiveRT(C, abstractName, tn) ==
  IF "field" \in TRS(C) /\ FK(C) \in FieldTR THEN tn
  ELSE IF "type" \in TRS(C) /\ abstractName \in TypeTR THEN PossibleSeq(abstractName)[Len(PossibleSeq(abstractName))]
  ELSE IF "engine" \in TRS(C) THEN PossibleSeq(abstractName)[1]
  ELSE tn
RTOf(C, t, raw) == IF IsAbstract(Named(t)) THEN EffectiveRT(C, Named(t), raw.tn) ELSE raw.tn
DefaultRT(n, path) ==
  IF ~IsAbstract(n) THEN n
  ELSE IF path[Len(path)] = "#1" /\ Len(PossibleSeq(n)) > 1 THEN PossibleSeq(n)[2] ELSE PossibleSeq(n)[1]

LeafRaw(n, parentId, fname, args) ==
  IF n = "String" THEN Str(parentId \o "." \o fname \o ArgStr(args))
  ELSE IF n = "ID" THEN Str(parentId \o "." \o fname)
  ELSE IF n = "Int" THEN Int(7)
  ELSE IF n = "Float" THEN [t |-> "F", v |-> 2]   \* the float 2.0 (TLC has no reals: tag F, integral payload)
  ELSE IF n = "Boolean" THEN Bool(TRUE)
  ELSE IF KindOf(n) = "ENUM" THEN Enum(Types[n].values[1])
  ELSE Str("x")

\* the falsy value of each built-in leaf type (what `if not value` style code confuses with "nothing")
FalsyOf(n) ==
  IF n = "Int" THEN Int(0)
  ELSE IF n = "Float" THEN [t |-> "F", v |-> 0]
  ELSE IF n = "Boolean" THEN Bool(FALSE)
  ELSE Str("")
\* "dboom" at the path of a default-resolved field: reading the parent's attribute raises KeyError (one attribute per object:
\* every response key reading it fails - the configurations using it have no aliases)
DBoomBelow(C, path) == \E q \in DOMAIN C.overlay : C.overlay[q].o = "dboom" /\ Len(q) = Len(path) + 1 /\ SubSeq(q, 1, Len(path)) = path
AttrBased(tn) == tn \in DOMAIN Types /\ Types[tn].way \in {"attr", "class"}
HasOv(C, path, kind) == path \in DOMAIN C.overlay /\ C.overlay[path].o = kind

RECURSIVE RawAt(_, _, _, _, _, _)
RawAt(C, t, path, parentId, fname, args) ==
  IF path \in DOMAIN C.overlay /\ C.overlay[path].o \notin {"rt", "emptyd"} THEN
     LET o == C.overlay[path] IN
     IF o.o \in {"falsy", "blank"} THEN [r |-> "leaf", v |-> FalsyOf(Named(t))]
     ELSE IF o.o = "len" THEN
        LET it == IF IsNN(t) THEN Tail(Tail(t)) ELSE Tail(t) IN
        [r |-> "list", v |-> [i \in 1..o.n |-> RawAt(C, it, Append(path, Idx(i - 1)), parentId, fname, args)]]
     ELSE [r |-> o.o]
  ELSE IF IsNN(t) THEN RawAt(C, Tail(t), path, parentId, fname, args)
  ELSE IF IsList(t) THEN
     [r |-> "list", v |-> [i \in 1..2 |-> RawAt(C, Tail(t), Append(path, Idx(i - 1)), parentId, fname, args)]]
  ELSE IF IsComposite(Named(t)) THEN
     \* "emptyd": the object's default-resolved attribute `d` holds the empty string
     \* "dboom": reading the attribute `d` of the object raises KeyError (a property of an attribute-based object)
     \*          (only objects of runtime types represented by attribute-based objects: a mapping without the key is simply null)
     LET tn == IF HasOv(C, path, "rt") THEN C.overlay[path].tn ELSE DefaultRT(Named(t), path) IN
     [r |-> "obj", id |-> JoinPath(path),
      d |-> IF HasOv(C, path, "emptyd") THEN "" ELSE IF DBoomBelow(C, path) /\ AttrBased(tn) THEN "<raises>" ELSE JoinPath(path) \o ".d",
      tn |-> tn]
  ELSE [r |-> "leaf", v |-> LeafRaw(Named(t), parentId, fname, args)]

------------------------------------------------------------------------------
(* Big-step execution.  A result is a record
     [st \in {"ok","fail"}, v, errs, up, nulls, calls, pos]
   v     : the completed value (Null when st = "fail")
   errs  : set of [path, nodes] - every failure raised (response path with list indices,
           merged field nodes of the failing field)
   up    : paths of the failures currently propagating upward (st = "fail" only)
   nulls : set of [at, why] - positions turned into null by error protection, with the
           propagating failures that explain them
   calls : sequence of [path, parent, args, ret] for every custom-resolver invocation
   pos   : set of [path, type] - the positions (fields with a custom resolver, list
           items) of the response tree, used to enumerate fault points                 *)
Res(st, v, e, u, n, c, p) == [st |-> st, v |-> v, errs |-> e, up |-> u, nulls |-> n, calls |-> c, pos |-> p]
OkV(v)              == Res("ok", v, {}, {}, {}, <<>>, {})
FailAt(path, ids)   == Res("fail", Null, {[path |-> path, nodes |-> ids]}, {path}, {}, <<>>, {})
\* error protection at a nullable position (field or list item)
Caught(t, path, r) ==
  IF r.st = "fail" /\ ~IsNN(t)
  THEN Res("ok", Null, r.errs, {}, r.nulls \cup {[at |-> path, why |-> r.up]}, r.calls, r.pos)
  ELSE r
Pos(path, t) == [path |-> path, type |-> t]
\* sequential composition of two sibling results (fields of a selection set, items of a list)
Both(r, rest) ==
  Res(IF r.st = "fail" \/ rest.st = "fail" THEN "fail" ELSE "ok", Null,
      r.errs \cup rest.errs, r.up \cup rest.up, r.nulls \cup rest.nulls, r.calls \o rest.calls, r.pos \cup rest.pos)

\* output coercion of leaves: identity except for the custom scalar Cs ("" -> null, t -> "cs:" t)
OutC(n, v) == IF n = "Cs" /\ v.t = "S" THEN (IF v.v = "" THEN Null ELSE Str("cs:" \o v.v)) ELSE v

RECURSIVE ExecSel(_, _, _, _, _), ExecEntries(_, _, _, _, _), ExecField(_, _, _, _, _), Complete(_, _, _, _, _), CompleteItems(_, _, _, _, _, _)

ExecEntries(C, rt, grouped, path, parentId) ==
  IF grouped = <<>> THEN OkV(Obj(<<>>))
  ELSE LET r    == ExecField(C, rt, Head(grouped), path, parentId)
           rest == ExecEntries(C, rt, Tail(grouped), path, parentId)
           b    == Both(r, rest) IN
       IF b.st = "fail" THEN b ELSE [b EXCEPT !.v = Obj(<<<<Head(grouped)[1], r.v>>>> \o rest.v.v)]

ExecSel(C, rt, ids, path, parentId) == ExecEntries(C, rt, Collect(C, rt, ids), path, parentId)

ExecField(C, rt, entry, path, parentId) ==
  LET me    == Append(path, entry[1])
      node  == C.nodes[entry[2][1]]
      fname == node.name
      fdef  == FieldDef(rt, fname) IN
  IF fname = "__typename" THEN OkV(Str(rt))
  ELSE
  LET args == CoerceArgs(C, fdef, node) IN
  IF ~args.ok THEN Caught(fdef.type, me, [FailAt(me, entry[2]) EXCEPT !.pos = {Pos(me, fdef.type)}])
  ELSE LET raw  == IF fdef.res = "D" /\ HasOv(C, path, "emptyd") THEN [r |-> "leaf", v |-> Str("")]
                   ELSE IF fdef.res = "D" /\ DBoomBelow(C, path) /\ AttrBased(rt) THEN [r |-> "raise"]
                   ELSE RawAt(C, fdef.type, me, parentId, fname, args.v)
           call == IF fdef.res = "R" THEN <<[path |-> me, parent |-> parentId, args |-> args.v, ret |-> raw]>> ELSE <<>>
           \* a default-resolved field of an attribute-based object is a position too (marked dres): reading the attribute may raise
           here == IF fdef.res = "R" THEN {Pos(me, fdef.type)}
                   ELSE IF AttrBased(rt) THEN {[path |-> me, type |-> fdef.type, dres |-> TRUE]} ELSE {}
           r    == Complete(SetFK(C, rt \o "." \o fname), fdef.type, raw, me, entry[2]) IN
       Caught(fdef.type, me, [r EXCEPT !.calls = call \o @, !.pos = here \cup @])

Complete(C, t, raw, path, ids) ==
  IF raw.r \in {"raise", "raiseLib", "exc"} THEN FailAt(path, ids)
  ELSE IF IsNN(t) THEN
     LET r == Complete(C, Tail(t), raw, path, ids) IN
     IF r.st = "ok" /\ IsNull(r.v)
     THEN Res("fail", Null, r.errs \cup {[path |-> path, nodes |-> ids]}, {path}, r.nulls, r.calls, r.pos)
     ELSE r
  ELSE IF raw.r = "null" THEN OkV(Null)
  ELSE IF IsList(t) THEN
     IF raw.r # "list" THEN FailAt(path, ids)
     ELSE CompleteItems(C, Tail(t), raw.v, path, ids, 1)
  ELSE IF IsLeaf(Named(t)) THEN
     IF raw.r = "leaf" THEN OkV(OutC(Named(t), raw.v)) ELSE FailAt(path, ids)
  ELSE \* composite
     IF raw.r # "obj" THEN FailAt(path, ids)
     ELSE LET tn == RTOf(C, t, raw) IN
          IF tn \notin DOMAIN Types THEN FailAt(path, ids)
          ELSE IF KindOf(tn) # "OBJECT" \/ ~TypeApplies(tn, Named(t)) THEN FailAt(path, ids)
          ELSE ExecSel(C, tn, ids, path, raw.id)

CompleteItems(C, it, items, path, ids, i) ==
  IF i > Len(items) THEN OkV(Lst(<<>>))
  ELSE LET ip   == Append(path, Idx(i - 1))
           r0   == Caught(it, ip, Complete(C, it, items[i], ip, ids))
           r    == [r0 EXCEPT !.pos = {Pos(ip, it)} \cup @]
           rest == CompleteItems(C, it, items, path, ids, i + 1)
           b    == Both(r, rest) IN
       IF b.st = "fail" THEN b ELSE [b EXCEPT !.v = Lst(<<r.v>> \o rest.v.v)]

RootType(C) == Roots[C.nodes[C.op].optype]

\* rootId: identity of the root value (initial value / subscription payload)
BigStepR(C, rootId) ==
  LET r == ExecSel(C, RootType(C), <<C.op>>, <<>>, rootId) IN
  [data |-> IF r.st = "fail" THEN Null ELSE r.v, errs |-> r.errs, calls |-> r.calls, pos |-> r.pos,
   nulls |-> IF r.st = "fail" THEN r.nulls \cup {[at |-> <<>>, why |-> r.up]} ELSE r.nulls]

BigStep(C) ==
  LET r == ExecSel(C, RootType(C), <<C.op>>, <<>>, "") IN
  [data |-> IF r.st = "fail" THEN Null ELSE r.v, errs |-> r.errs, calls |-> r.calls, pos |-> r.pos,
   nulls |-> IF r.st = "fail" THEN r.nulls \cup {[at |-> <<>>, why |-> r.up]} ELSE r.nulls]
=============================================================================
