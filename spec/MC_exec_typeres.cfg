SPECIFICATION Spec
CONSTANTS
  Types <- TypesExec
  Roots <- RootsExec
  MaxSel = 3
  MaxDepth = 3
  MaxFrags = 0
  MaxOps = 1
  OpTypes = {"query"}
  FieldAlpha <- AlphaTypeRes
  Aliases = {""}
  Conds = {"", "A", "B"}
  DirOpts <- NoDirs
  ArgOpts <- ArgOptsNone
  VarTypes <- VarTypesStd
  VarVals <- VarValsStd
  MaxOverlay = 1
  TRSets <- AllTR
  FalsyOverlays = FALSE
INVARIANT R1_Exec
INVARIANT Emit
CHECK_DEADLOCK FALSE
