SPECIFICATION Spec
CONSTANTS
  Types <- TypesExec
  Roots <- RootsExec
  MaxSel = 12
  MaxDepth = 4
  MaxFrags = 1
  MaxOps = 1
  OpTypes = {"query", "mutation"}
  FieldAlpha <- AlphaAll
  Aliases = {"", "z"}
  Conds = {"", "T", "P", "A", "B", "C", "U"}
  DirOpts <- NoDirs
  ArgOpts <- ArgOptsStd
  VarTypes <- VarTypesStd
  VarVals <- VarValsStd
  MaxOverlay = 0
  TRSets <- NoTR
  FalsyOverlays = FALSE
INVARIANT R1_Exec
INVARIANT Emit
CHECK_DEADLOCK FALSE
