SPECIFICATION SpecM
CONSTANTS
  Types <- TypesExec
  Roots <- RootsExec
  MaxSel = 2
  MaxDepth = 3
  MaxFrags = 0
  MaxOps = 1
  OpTypes = {"query"}
  FieldAlpha <- AlphaMultiV
  Aliases = {""}
  Conds = {""}
  DirOpts <- DirsVarOnly
  ArgOpts <- ArgOptsMulti
  VarTypes <- VarTypesStd
  VarVals <- VarValsSmall
  MaxOverlay = 0
  TRSets <- NoTR
  FalsyOverlays = FALSE
  MaxFaults = 1
  SeqFields = {}
  LConc = TRUE
  NReq = 2
  OverlayKinds = {}
INVARIANT R1_Multi
INVARIANT EmitM
CHECK_DEADLOCK FALSE
