------------------------------- MODULE Registry ------------------------------
(* The process-wide registry (C17): implementations are registered under a schema name
   and an engine cooked for a name sees the implementations of that name only.

   Bundles are numbered 1..N; bundle b owns schema name b.  Every bundle declares the
   SAME type, field, scalar, directive and subscription names, but its implementations
   tag every value with the bundle's identity.  A bundle's own steps happen in order
       "regA" (resolvers + type resolver)  "regB" (scalar + directive + subscription)  "cook"
   and the steps of different bundles interleave arbitrarily.                           *)
EXTENDS Naturals, Sequences, FiniteSets, TLC

CONSTANT N
Bundles == 1..N
Kinds == {"resolvers", "type_resolvers", "scalars", "directives", "subscriptions", "sdl"}   \* "sdl": the bundle's own definitions of the shared type names
StepsOf == <<"regA", "regB", "cook">>
KindsOfStep(s) == IF s = "regA" THEN {"resolvers", "type_resolvers"} ELSE IF s = "regB" THEN {"scalars", "directives", "subscriptions"} ELSE {}

VARIABLES registry,   \* schema name -> kind -> set of bundle ids whose implementation is registered there
          pc,         \* bundle -> number of steps done
          engines,    \* schema name -> the registry view the cooked engine was baked from ("none" before)
          hist
rvars == <<registry, pc, engines, hist>>

EmptyView == [k \in Kinds |-> {}]
RInit == /\ registry = [sn \in Bundles |-> EmptyView]
         /\ pc = [b \in Bundles |-> 0]
         /\ engines = [sn \in Bundles |-> [cooked |-> FALSE, view |-> EmptyView]]
         /\ hist = <<>>

Step(b) ==
  /\ pc[b] < Len(StepsOf)
  /\ LET s == StepsOf[pc[b] + 1] IN
     /\ pc' = [pc EXCEPT ![b] = @ + 1]
     /\ hist' = Append(hist, <<b, s>>)
     /\ IF s = "cook"
        THEN \* the SDL is registered under the name at cook time; the engine depends on registry[its name] only
             /\ registry' = [registry EXCEPT ![b]["sdl"] = @ \cup {b}]
             /\ engines' = [engines EXCEPT ![b] = [cooked |-> TRUE, view |-> registry'[b]]]
        ELSE /\ registry' = [registry EXCEPT ![b] = [k \in Kinds |-> IF k \in KindsOfStep(s) THEN @[k] \cup {b} ELSE @[k]]]
             /\ UNCHANGED engines
RNext == \E b \in Bundles : Step(b)
RSpec == RInit /\ [][RNext]_rvars

\* what engine sn answers to the probe requests: the identity of the bundle behind each kind
Answers(sn) == [k \in Kinds |-> engines[sn].view[k]]

\* R1: every cooked engine behaves exactly like the same bundle built alone
Independent == \A sn \in Bundles : engines[sn].cooked => \A k \in Kinds : Answers(sn)[k] = {sn}
\* nothing is ever registered under another bundle's name
NoLeak == \A sn \in Bundles : \A k \in Kinds : registry[sn][k] \subseteq {sn}
AllDone == \A b \in Bundles : pc[b] = Len(StepsOf)
=============================================================================
