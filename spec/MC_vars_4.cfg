SPECIFICATION Spec
CONSTANTS
  MODE = "vars"
  TLO = 53
  THI = 60
INVARIANT R1_Vars
INVARIANT EmitVars
CHECK_DEADLOCK FALSE
