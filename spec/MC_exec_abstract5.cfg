SPECIFICATION Spec
CONSTANTS
  Types <- TypesExec
  Roots <- RootsExec
  MaxSel = 5
  MaxDepth = 3
  MaxFrags = 0
  MaxOps = 1
  OpTypes = {"query"}
  FieldAlpha <- AlphaAbstract
  Aliases = {""}
  Conds = {"", "A", "B", "P", "C"}
  DirOpts <- NoDirs
  ArgOpts <- ArgOptsNone
  VarTypes <- VarTypesStd
  VarVals <- VarValsStd
  MaxOverlay = 0
  TRSets <- NoTR
  FalsyOverlays = FALSE
INVARIANT R1_Exec
INVARIANT Emit
CHECK_DEADLOCK FALSE
