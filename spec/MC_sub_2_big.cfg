SPECIFICATION SpecSub
CONSTANTS
  Types <- TypesExec
  Roots <- RootsExec
  MaxSel = 3
  MaxDepth = 3
  MaxFrags = 0
  MaxOps = 1
  OpTypes = {"subscription"}
  FieldAlpha <- AlphaSub
  Aliases = {"", "z"}
  Conds = {""}
  DirOpts <- NoDirs
  ArgOpts <- ArgOptsSub
  VarTypes <- VarTypesStd
  VarVals <- VarValsSmall
  MaxOverlay = 0
  TRSets <- NoTR
  FalsyOverlays = FALSE
  MaxFaults = 1
  MaxEvents = 2
  EventKinds <- EvKinds
  AllowRefused = TRUE
INVARIANT R1_Sub
INVARIANT EmitSub
PROPERTY SubProgress
CHECK_DEADLOCK FALSE
