------------------------------- MODULE MC_dirs -------------------------------
EXTENDS Directives, Json
CONSTANT MaxSum
VARIABLE cfg
Vec == [s : 0..2, e : 0..2, v : 0..2, io : 0..2, if : 0..2, a : 0..2, f : 0..2, q : 0..2, o : 0..2]
Sum(c) == c.s + c.e + c.v + c.io + c["if"] + c.a + c.f + c.q + c.o
Init == cfg \in {c \in Vec : Sum(c) <= MaxSum \/ (\A l \in DOMAIN c : c[l] = 2)}
Spec == Init /\ [][UNCHANGED cfg]_cfg
R1_Dirs == SameHooksLitVar(cfg) /\ CountOK(cfg)
Emit == PrintT(ToJson([kind |-> "dircfg", cfg |-> cfg, expect |-> [k \in Kinds |-> Expected(cfg, k)], merged |-> MergedExpected(cfg)]))
=============================================================================
