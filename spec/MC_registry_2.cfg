SPECIFICATION RSpec
CONSTANTS N = 2
INVARIANT Independent
INVARIANT NoLeak
INVARIANT EmitR
CHECK_DEADLOCK FALSE
