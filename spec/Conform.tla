------------------------------- MODULE Conform -------------------------------
(* C03 / C18: what a response must look like, judged from the response alone.

   Conforms(C, data): `data` (a tagged value projected from the engine's real answer)
   conforms to the selection and the schema: exactly the collected response keys in
   first-appearance order, lists where lists are declared, no null at a non-null
   position, leaves of the declared kind, abstract positions completed as one of their
   possible object types.

   Leaf projection (harness/project.py):  None -> N, bool -> B, int within 32 bits -> I,
   str -> S, everything else -> K with a class name:
     "iOVER" int beyond 32 bits, "fINT32" integral float within 32 bits, "fFIN" other
     finite float, "fNONFIN" NaN / infinities, "OTHER" any other Python object.        *)
EXTENDS GQL

LeafConforms(n, v) ==
  IF n = "Int" THEN v.t = "I" \/ (v.t = "K" /\ v.v = "fINT32")
  ELSE IF n = "Float" THEN v.t = "I" \/ (v.t = "K" /\ v.v \in {"fINT32", "fFIN"})
  ELSE IF n \in {"String", "ID"} THEN v.t = "S"
  ELSE IF n = "Boolean" THEN v.t = "B"
  ELSE IF KindOf(n) = "ENUM" THEN v.t = "S" /\ v.v \in SeqToSet(Types[n].values)
  ELSE v.t \in {"I", "S", "B", "K"}            \* custom scalar: any leaf

RECURSIVE ValueConforms(_, _, _, _), ObjConforms(_, _, _, _)

\* does object value `v` conform to the fields collected for runtime type rt from the merged nodes ids?
ObjConforms(C, rt, ids, v) ==
  LET g == Collect(C, rt, ids) IN
  /\ v.t = "O"
  /\ Len(v.v) = Len(g)
  /\ \A i \in 1..Len(g) :
       /\ v.v[i][1] = g[i][1]
       /\ LET fname == C.nodes[g[i][2][1]].name IN
          IF fname = "__typename" THEN v.v[i][2].t = "S" /\ v.v[i][2].v = rt
          ELSE ValueConforms(C, FieldDef(rt, fname).type, g[i][2], v.v[i][2])

ValueConforms(C, t, ids, v) ==
  IF IsNN(t) THEN ~IsNull(v) /\ ValueConforms(C, Tail(t), ids, v)
  ELSE IF IsNull(v) THEN TRUE
  ELSE IF IsList(t) THEN v.t = "L" /\ \A i \in 1..Len(v.v) : ValueConforms(C, Tail(t), ids, v.v[i])
  ELSE IF IsLeaf(Named(t)) THEN LeafConforms(Named(t), v)
  ELSE \E rt \in Possible(Named(t)) : ObjConforms(C, rt, ids, v)

Conforms(C, data) == IsNull(data) \/ ObjConforms(C, RootType(C), <<C.op>>, data)

------------------------------------------------------------------------------
(* C18: the envelope.  A projected response is
     [raised, isDict, keys, data, errors, jsonOk]
   errors : "absent" marker or Seq of [msgIsStr, path ("absent"|"null"|"list"|"bad"), locs: Seq(<<line, col>>),
            locsOk (a list of {line, column} int pairs), hasExt, extEmpty, keysOk]
   geometry : Seq of line lengths of the query text (in characters)                  *)
LocInside(geom, l) ==
  /\ l[1] >= 1 /\ l[2] >= 1
  /\ l[1] <= Len(geom)
  /\ l[2] <= geom[l[1]] + 1

ErrorWellFormed(geom, e) ==
  /\ e.msgIsStr
  /\ e.path \in {"null", "list"}
  /\ e.locsOk
  /\ \A i \in 1..Len(e.locs) : LocInside(geom, e.locs[i])
  /\ (e.hasExt => ~e.extEmpty)
  /\ e.keysOk

Envelope(geom, r) ==
  /\ ~r.raised
  /\ r.isDict
  /\ r.hasData
  /\ r.keysOk                                   \* only "data" and "errors"
  /\ (r.hasErrors => Len(r.errors) > 0 /\ \A i \in 1..Len(r.errors) : ErrorWellFormed(geom, r.errors[i]))
  /\ r.jsonOk
=============================================================================
