------------------------------ MODULE MC_cache -------------------------------
(* R1 + R2 configuration for C16 (cache and history transparency) and the
   operation-selection part of C18: every request sequence of length MaxLen over a
   pool of requests, under a cache of the configured capacity.                      *)
EXTENDS Engine, SExec, Json

NoL == [t |-> "null", v |-> 0]
N(k, parent, name, optype) == [k |-> k, parent |-> parent, name |-> name, alias |-> "", cond |-> "", args |-> <<>>,
                               dirs |-> <<>>, vdefs |-> <<>>, optype |-> optype, ptype |-> ""]
VDef(n, t) == [name |-> n, type |-> t, hasDefault |-> FALSE, default |-> NoL]

\* D1: query A { o { s } z: s }  query B { s i }
D1 == << N("OP", 0, "A", "query"), N("F", 1, "o", ""), N("F", 2, "s", ""), [N("F", 1, "s", "") EXCEPT !.alias = "z"],
         N("OP", 0, "B", "query"), N("F", 5, "s", ""), N("F", 5, "i", "") >>
\* D2: query ($v: Boolean!) { s @skip(if: $v)  lo { d } }
D2 == << [N("OP", 0, "", "query") EXCEPT !.vdefs = <<VDef("v", <<"NN", "Boolean">>)>>],
         [N("F", 1, "s", "") EXCEPT !.dirs = <<[name |-> "skip", val |-> [t |-> "var", v |-> "v"]]>>],
         N("F", 1, "lo", ""), N("F", 3, "d", "") >>
\* D3 (invalid): { nope }      D4 (syntactically broken): { s
D3 == << N("OP", 0, "", "query"), N("F", 1, "nope", "") >>
D4 == << N("RAWDEF", 0, "{ s ", "") >>
\* D5: mutation M { m3  m1 { s } }
D5 == << N("OP", 0, "M", "mutation"), N("F", 1, "m3", ""), N("F", 1, "m1", ""), N("F", 3, "s", "") >>

\* D6: a variable nested two levels deep in a literal:  query ($n: Int) { h(i: {r: 1, l: [2, $n]}) }
D6 == << [N("OP", 0, "", "query") EXCEPT !.vdefs = <<VDef("n", <<"Int">>)>>],
         [N("F", 1, "h", "") EXCEPT !.args = <<[name |-> "i", val |-> [t |-> "obj", v |-> << <<"r", [t |-> "int", v |-> 1]>>,
                                                  <<"l", [t |-> "list", v |-> <<[t |-> "int", v |-> 2], [t |-> "var", v |-> "n"]>>]>> >>]]>>] >>
\* D7 (invalid): a fragment cycle     { ...F }  fragment F on Query { s ...F }
D7 == << N("OP", 0, "", "query"), N("S", 1, "F", ""), [N("FRAG", 0, "F", "") EXCEPT !.cond = "Query"], N("F", 3, "s", ""), N("S", 3, "F", "") >>
\* D8 (invalid, another rule): { s(zz: 1) }
D8 == << N("OP", 0, "", "query"), [N("F", 1, "s", "") EXCEPT !.args = <<[name |-> "zz", val |-> [t |-> "int", v |-> 1]]>>] >>

\* D9: widening fragment  { a { ... on P { s } } }     D10: { lp { s } }  (items of both implementers)
D9 == << N("OP", 0, "", "query"), N("F", 1, "a", ""), [N("I", 2, "", "") EXCEPT !.cond = "P"], N("F", 3, "s", "") >>
D10 == << N("OP", 0, "", "query"), N("F", 1, "lp", ""), N("F", 2, "s", "") >>
\* D11 (invalid): the same operation name twice   query A { s }  query A { i }
D11 == << N("OP", 0, "A", "query"), N("F", 1, "s", ""), N("OP", 0, "A", "query"), N("F", 3, "i", "") >>

\* D12: an enum variable   query ($z: Sz) { fz(a: $z) }   (sent with a value name and with a misspelt one)
D12 == << [N("OP", 0, "", "query") EXCEPT !.vdefs = <<VDef("z", <<"Sz">>)>>],
          [N("F", 1, "fz", "") EXCEPT !.args = <<[name |-> "a", val |-> [t |-> "var", v |-> "z"]]>>] >>

\* D13 / D14: two documents declaring the same variable with different list defaults
\*   query ($l: [Int] = [1]) { h(i: {r: 1, l: $l}) }      query ($l: [Int] = [2, 3]) { h(i: {r: 1, l: $l}) }
DL(items) == << [N("OP", 0, "", "query") EXCEPT !.vdefs = <<[name |-> "l", type |-> <<"L", "Int">>, hasDefault |-> TRUE, default |-> [t |-> "list", v |-> items]]>>],
                [N("F", 1, "h", "") EXCEPT !.args = <<[name |-> "i", val |-> [t |-> "obj", v |-> << <<"r", [t |-> "int", v |-> 1]>>, <<"l", [t |-> "var", v |-> "l"]>> >>]]>>] >>
D13 == DL(<<[t |-> "int", v |-> 1]>>)
D14 == DL(<<[t |-> "int", v |-> 2], [t |-> "int", v |-> 3]>>)

\* D15: the same object field twice under one response key, the later occurrence with a field that fails at run time
\*      { o { s } o { sn } }   with the resolver of sn answering null (sn: String!): the error carries the locations of the merged nodes
D15 == << N("OP", 0, "", "query"), N("F", 1, "o", ""), N("F", 2, "s", ""), N("F", 1, "o", ""), N("F", 4, "sn", "") >>

\* D16: a named fragment spread directly in the operation's root selection set   { ...F }  fragment F on Query { s i }
D16 == << N("OP", 0, "", "query"), N("S", 1, "F", ""), [N("FRAG", 0, "F", "") EXCEPT !.cond = "Query"], N("F", 3, "s", ""), N("F", 3, "i", "") >>

\* D17: two operations, the first declaring a required variable and one of a custom scalar type
\*      query A($v: Boolean!, $c: Cs) { s @skip(if: $v) cs(a: $c) }   query B { i }
D17 == << [N("OP", 0, "A", "query") EXCEPT !.vdefs = <<VDef("v", <<"NN", "Boolean">>), VDef("c", <<"Cs">>)>>],
          [N("F", 1, "s", "") EXCEPT !.dirs = <<[name |-> "skip", val |-> [t |-> "var", v |-> "v"]]>>],
          [N("F", 1, "cs", "") EXCEPT !.args = <<[name |-> "a", val |-> [t |-> "var", v |-> "c"]]>>],
          N("OP", 0, "B", "query"), N("F", 4, "i", "") >>

\* D18 (invalid): the same operation name borne by a query and by a mutation   query A { s }  mutation A { m3 }
D18 == << N("OP", 0, "A", "query"), N("F", 1, "s", ""), N("OP", 0, "A", "mutation"), N("F", 3, "m3", "") >>

\* D19 (invalid): two anonymous operations and no named one   { s }  { i }
D19 == << N("OP", 0, "", "query"), N("F", 1, "s", ""), N("OP", 0, "", "query"), N("F", 3, "i", "") >>

DocsStd == [ D1 |-> [class |-> "valid", nodes |-> D1], D2 |-> [class |-> "valid", nodes |-> D2],
             D3 |-> [class |-> "invalid", nodes |-> D3], D4 |-> [class |-> "broken", nodes |-> D4],
             D5 |-> [class |-> "valid", nodes |-> D5], D6 |-> [class |-> "valid", nodes |-> D6],
             D7 |-> [class |-> "invalid", nodes |-> D7], D8 |-> [class |-> "invalid", nodes |-> D8],
             D9 |-> [class |-> "valid", nodes |-> D9], D10 |-> [class |-> "valid", nodes |-> D10], D11 |-> [class |-> "invalid", nodes |-> D11],
             D12 |-> [class |-> "valid", nodes |-> D12], D13 |-> [class |-> "valid", nodes |-> D13], D14 |-> [class |-> "valid", nodes |-> D14],
             D15 |-> [class |-> "valid", nodes |-> D15], D16 |-> [class |-> "valid", nodes |-> D16],
             D17 |-> [class |-> "valid", nodes |-> D17], D18 |-> [class |-> "invalid", nodes |-> D18],
             D19 |-> [class |-> "invalid", nodes |-> D19] ]

Rq(d, sp, opn, g) == [doc |-> d, spelling |-> sp, opName |-> opn, given |-> g]
PoolStd == { Rq("D1", "str", "A", <<>>), Rq("D1", "str", "B", <<>>), Rq("D1", "bytes", "A", <<>>), Rq("D1", "str", "", <<>>),
             Rq("D1", "str", "Zzz", <<>>),
             Rq("D2", "str", "", [v |-> Bool(TRUE)]), Rq("D2", "str", "", [v |-> Bool(FALSE)]), Rq("D2", "bytes", "", <<>>),
             Rq("D3", "str", "", <<>>), Rq("D4", "str", "", <<>>), Rq("D4", "bytes", "", <<>>), Rq("D5", "str", "M", <<>>),
             Rq("D6", "str", "", [n |-> Int(3)]), Rq("D6", "str", "", [n |-> Int(4)]), Rq("D6", "bytes", "", <<>>), Rq("D7", "str", "", <<>>), Rq("D8", "str", "", <<>>) }
\* C18: the operation-selection x variables matrix (one request per behaviour)
PoolEnv == PoolStd \cup { Rq("D19", "str", "", <<>>), Rq("D19", "bytes", "", <<>>), Rq("D18", "str", "A", <<>>), Rq("D18", "str", "", <<>>), Rq("D17", "str", "", [c |-> Str("x")]), Rq("D17", "str", "Zzz", [c |-> Str("x")]), Rq("D17", "str", "B", [c |-> Str("x")]),
                          Rq("D17", "str", "A", [c |-> Str("x")]), Rq("D17", "str", "A", [v |-> Bool(FALSE), c |-> Str("x")]), Rq("D2", "str", "", [v |-> Bool(TRUE), extra |-> Int(1)]), Rq("D2", "str", "", [v |-> Null]),
                          Rq("D2", "str", "Nope", [v |-> Bool(TRUE)]), Rq("D5", "str", "", <<>>), Rq("D5", "bytes", "X", <<>>),
                          Rq("D3", "bytes", "A", <<>>), Rq("D4", "str", "A", [v |-> Bool(TRUE)]) }
\* history-sensitive documents: widening fragment then the other implementer; invalid documents of several rules, repeated
PoolHist == { Rq("D9", "str", "", <<>>), Rq("D10", "str", "", <<>>), Rq("D11", "str", "A", <<>>), Rq("D11", "bytes", "A", <<>>),
              Rq("D16", "str", "", <<>>), Rq("D3", "str", "", <<>>), [doc |-> "D15", spelling |-> "str", opName |-> "", given |-> <<>>, overlay |-> (<<"o", "sn">> :> [o |-> "null"])],
              Rq("D12", "str", "", [z |-> Str("XLARGE")]), Rq("D12", "str", "", [z |-> Str("XLARG")]),
              Rq("D13", "str", "", <<>>), Rq("D14", "str", "", <<>>) }
PoolSmall == { Rq("D1", "str", "A", <<>>), Rq("D1", "bytes", "B", <<>>), Rq("D2", "str", "", [v |-> Bool(TRUE)]), Rq("D2", "str", "", [v |-> Bool(FALSE)]),
               Rq("D2", "str", "", <<>>), Rq("D3", "str", "", <<>>), Rq("D4", "str", "", <<>>), Rq("D5", "str", "M", <<>>),
               Rq("D6", "str", "", [n |-> Int(3)]), Rq("D6", "str", "", [n |-> Int(4)]), Rq("D7", "str", "", <<>>), Rq("D8", "str", "", <<>>) }

ASSUME PrintT(ToJson([kind |-> "schema", types |-> TypesExec, roots |-> RootsExec]))
ASSUME PrintT(ToJson([kind |-> "docs", docs |-> DocsStd]))

GivenPairs(g) == {<<x, g[x]>> : x \in DOMAIN g}
EmitE == Len(log) = MaxLen =>
  PrintT(ToJson([kind |-> "seq", capacity |-> Capacity,
                 log |-> [i \in 1..Len(log) |->
                   [doc |-> log[i].req.doc, spelling |-> log[i].req.spelling, opName |-> log[i].req.opName,
                    given |-> GivenPairs(log[i].req.given), hit |-> log[i].hit, evicted |-> log[i].evicted,
                    cls |-> log[i].resp.cls, data |-> log[i].resp.data, errs |-> log[i].resp.errs,
                    nulls |-> log[i].resp.nulls, calls |-> log[i].resp.calls]]]))
=============================================================================
