----------------------------- MODULE MC_scalars ------------------------------
(* R1 + R2 configuration for C10: the laws of Scalars.tla are checked over the whole
   token universe, and every cell (scalar, direction, token) is printed with its set
   of allowed outcomes for replay through the engine.                               *)
EXTENDS Scalars, Json

VARIABLE cell
LitToks == [ IntValue |-> IntToks, FloatValue |-> FloatFinite \cup {"fLITINF"}, StringValue |-> StrToks,
             BooleanValue |-> BoolToks, EnumValue |-> {"eNAME"}, ListValue |-> {"LIST"}, ObjectValue |-> {"DICT"} ]
Cells == {[s |-> s, dir |-> "out", k |-> "", t |-> t] : s \in Scalars5, t \in Tokens}
         \cup {[s |-> s, dir |-> "in", k |-> "", t |-> t] : s \in Scalars5, t \in Tokens}
         \cup UNION {{[s |-> s, dir |-> "lit", k |-> k, t |-> t] : s \in Scalars5, t \in LitToks[k]} : k \in LitKinds}
DateCells == {[s |-> s, dir |-> "out", k |-> "", t |-> t] : s \in DateScalars, t \in {DTok(x) : x \in DateScalars} \cup {"sTXT", "iS", "LIST"}}
             \cup {[s |-> s, dir |-> "in", k |-> "", t |-> t] : s \in DateScalars, t \in DateToks \ {DTok(x) : x \in DateScalars}}
             \cup {[s |-> s, dir |-> "lit", k |-> "StringValue", t |-> t] : s \in DateScalars, t \in {STok(x) : x \in DateScalars} \cup {"sTXT", "sDATEBAD"}}
             \cup {[s |-> s, dir |-> "lit", k |-> "IntValue", t |-> "iS"] : s \in DateScalars}
Init == cell \in Cells \cup DateCells
Next == UNCHANGED cell
Spec == Init /\ [][Next]_cell

Allowed(c) == IF c.s \in DateScalars THEN (IF c.dir = "out" THEN OutDate(c.s, c.t) ELSE IF c.dir = "in" THEN InDate(c.s, c.t) ELSE LitDate(c.s, [k |-> c.k, t |-> c.t]))
              ELSE IF c.dir = "out" THEN Out(c.s, c.t) ELSE IF c.dir = "in" THEN In(c.s, c.t) ELSE LitC(c.s, [k |-> c.k, t |-> c.t])

Laws == LawDates /\ LawWire /\ LawInputKinds /\ LawInputAccepts /\ LawLitVar /\ LawIdem /\ LawTotal
ASSUME LawWire
ASSUME LawInputKinds
ASSUME LawInputAccepts
ASSUME LawLitVar
ASSUME LawIdem
ASSUME LawTotal
ASSUME LawDates
LawsHold == Laws
Emit == PrintT(ToJson([kind |-> "cell", s |-> cell.s, dir |-> cell.dir, k |-> cell.k, t |-> cell.t, allowed |-> Allowed(cell)]))
=============================================================================
