SPECIFICATION Spec
CONSTANTS
  MODE = "ways"
  TLO = 53
  THI = 60
INVARIANT R1_Ways
INVARIANT EmitWays
CHECK_DEADLOCK FALSE
