------------------------------ MODULE Validation -----------------------------
(* The validation rules the project documents as supported (June 2018, section 5),
   one predicate per rule over the node-table representation of a document, and a
   catalogue of violation-injecting rewrites: Rewrites(ns) is the set of
   [rule, site, nodes] obtained by breaking `rule` at every applicable node of the
   valid document ns (operation level, nested selection, inside a named fragment,
   inside an inline fragment, directive argument, nested input value, variable
   definition, second operation / fragment).                                        *)
EXTENDS GenDoc

\* directive definitions visible to executable documents
DirDefs == [ skip    |-> [locs |-> {"FIELD", "FRAGMENT_SPREAD", "INLINE_FRAGMENT"}, args |-> <<[name |-> "if", type |-> <<"NN", "Boolean">>, hasDefault |-> FALSE]>>],
             include |-> [locs |-> {"FIELD", "FRAGMENT_SPREAD", "INLINE_FRAGMENT"}, args |-> <<[name |-> "if", type |-> <<"NN", "Boolean">>, hasDefault |-> FALSE]>>],
             deprecated |-> [locs |-> {"FIELD_DEFINITION", "ENUM_VALUE"}, args |-> <<[name |-> "reason", type |-> <<"String">>, hasDefault |-> TRUE]>>] ]
DirArgs(d) == IF "args" \in DOMAIN d THEN d.args ELSE <<[name |-> "if", val |-> d.val]>>
LocOf(n) == IF n.k = "F" THEN "FIELD" ELSE IF n.k = "S" THEN "FRAGMENT_SPREAD" ELSE IF n.k = "I" THEN "INLINE_FRAGMENT"
            ELSE IF n.k = "FRAG" THEN "FRAGMENT_DEFINITION" ELSE IF n.optype = "query" THEN "QUERY"
            ELSE IF n.optype = "mutation" THEN "MUTATION" ELSE "SUBSCRIPTION"

KnownType(n) == n \in DOMAIN Types
KnownField(n) == n.k = "F" /\ n.ptype # "" /\ KnownType(n.ptype)
                 /\ (n.name = "__typename" \/ (HasFields(n.ptype) /\ n.name \in FieldNames(n.ptype))
                     \/ (n.ptype = Roots.query /\ n.name \in {"__schema", "__type"}))
IsMeta(n) == n.name \in {"__typename", "__schema", "__type"}
FDefOf(n) == FieldDef(n.ptype, n.name)

\* ---- literals ---------------------------------------------------------------------------------
RECURSIVE VarsIn(_), DupKeys(_), LitOK(_, _)
VarsIn(l) == IF l.t = "var" THEN {l.v}
             ELSE IF l.t = "list" THEN UNION {VarsIn(l.v[i]) : i \in 1..Len(l.v)}
             ELSE IF l.t = "obj" THEN UNION {VarsIn(l.v[i][2]) : i \in 1..Len(l.v)}
             ELSE {}
DupKeys(l) == IF l.t = "list" THEN \E i \in 1..Len(l.v) : DupKeys(l.v[i])
              ELSE IF l.t = "obj" THEN (\E i, j \in 1..Len(l.v) : i # j /\ l.v[i][1] = l.v[j][1]) \/ (\E i \in 1..Len(l.v) : DupKeys(l.v[i][2]))
              ELSE FALSE
InputFieldsOf(n) == Types[n].inputs
LitOK(t, l) ==
  IF l.t = "var" THEN TRUE
  ELSE IF IsNN(t) THEN l.t # "null" /\ LitOK(Tail(t), l)
  ELSE IF l.t = "null" THEN TRUE
  ELSE IF IsList(t) THEN (IF l.t = "list" THEN \A i \in 1..Len(l.v) : LitOK(Tail(t), l.v[i]) ELSE LitOK(Tail(t), l))
  ELSE LET n == Named(t) IN
     IF ~KnownType(n) THEN TRUE
     ELSE IF n = "Int" THEN l.t = "int"
     ELSE IF n = "Float" THEN l.t \in {"int", "float"}
     ELSE IF n = "String" THEN l.t = "str"
     ELSE IF n = "Boolean" THEN l.t = "bool"
     ELSE IF n = "ID" THEN l.t \in {"int", "str"}
     ELSE IF KindOf(n) = "ENUM" THEN l.t = "enum" /\ l.v \in SeqToSet(Types[n].values)
     ELSE IF KindOf(n) = "INPUT" THEN
        /\ l.t = "obj"
        /\ \A i \in 1..Len(l.v) : \E j \in 1..Len(InputFieldsOf(n)) : InputFieldsOf(n)[j].name = l.v[i][1] /\ LitOK(InputFieldsOf(n)[j].type, l.v[i][2])
        /\ \A j \in 1..Len(InputFieldsOf(n)) :
              (IsNN(InputFieldsOf(n)[j].type) /\ ~InputFieldsOf(n)[j].hasDefault) => \E i \in 1..Len(l.v) : l.v[i][1] = InputFieldsOf(n)[j].name
     ELSE TRUE

ArgDefsOfNode(n) == IF IsMeta(n) THEN <<>> ELSE FDefOf(n).args
ArgDefNamed(defs, name) == LET S == {i \in 1..Len(defs) : defs[i].name = name} IN IF S = {} THEN 0 ELSE CHOOSE i \in S : TRUE
NoDupNames(sq) == \A i, j \in 1..Len(sq) : i # j => sq[i].name # sq[j].name

\* all (argument definitions, supplied arguments) pairs of a node: the field's own and each directive's
ArgSites(n) ==
  (IF KnownField(n) THEN {[defs |-> ArgDefsOfNode(n), given |-> n.args]} ELSE {})
  \cup {[defs |-> DirDefs[n.dirs[i].name].args, given |-> DirArgs(n.dirs[i])] : i \in {j \in 1..Len(n.dirs) : n.dirs[j].name \in DOMAIN DirDefs}}
GivenSites(n) == {n.args} \cup {DirArgs(n.dirs[i]) : i \in 1..Len(n.dirs)}

\* ---- the rules --------------------------------------------------------------------------------
Ops(ns) == {i \in Ids(ns) : ns[i].k = "OP"}
Frags(ns) == {i \in Ids(ns) : ns[i].k = "FRAG"}

R_ExecDefs(ns) == \A i \in Ids(ns) : ns[i].k # "RAWDEF"
R_OpNameUnique(ns) == \A i, j \in Ops(ns) : (i # j /\ ns[i].name # "") => ns[i].name # ns[j].name
R_LoneAnon(ns) == (\E i \in Ops(ns) : ns[i].name = "") => Cardinality(Ops(ns)) = 1
RECURSIVE RootFieldCount(_, _, _)
RootFieldCount(ns, sel, depth) ==
  IF sel = <<>> \/ depth > 4 THEN 0
  ELSE LET n == ns[Head(sel)]
           me == IF n.k = "F" THEN 1
                 ELSE IF n.k = "I" THEN RootFieldCount(ns, Children(ns, Head(sel)), depth + 1)
                 ELSE IF HasFrag(ns, n.name) THEN RootFieldCount(ns, Children(ns, FragId(ns, n.name)), depth + 1) ELSE 1 IN
       me + RootFieldCount(ns, Tail(sel), depth)
R_SingleRoot(ns) == \A o \in Ops(ns) : ns[o].optype = "subscription" => RootFieldCount(ns, Children(ns, o), 0) = 1
R_FieldsExist(ns) == \A i \in Ids(ns) : (ns[i].k = "F" /\ ns[i].ptype # "" /\ KnownType(ns[i].ptype)) => KnownField(ns[i])
R_Leafs(ns) == \A i \in Ids(ns) : (KnownField(ns[i]) /\ ~IsMeta(ns[i])) =>
                   (IsLeaf(Named(FDefOf(ns[i]).type)) <=> Children(ns, i) = <<>>)
R_ArgNames(ns) == \A i \in Ids(ns) : \A s \in ArgSites(ns[i]) : \A k \in 1..Len(s.given) : ArgDefNamed(s.defs, s.given[k].name) # 0
R_ArgUnique(ns) == \A i \in Ids(ns) : \A g \in GivenSites(ns[i]) : NoDupNames(g)
R_RequiredArgs(ns) == \A i \in Ids(ns) : \A s \in ArgSites(ns[i]) : \A d \in 1..Len(s.defs) :
                         (IsNN(s.defs[d].type) /\ ~s.defs[d].hasDefault) => \E k \in 1..Len(s.given) : s.given[k].name = s.defs[d].name
R_ValuesCorrect(ns) ==
  /\ \A i \in Ids(ns) : \A s \in ArgSites(ns[i]) : \A k \in 1..Len(s.given) :
        LET d == ArgDefNamed(s.defs, s.given[k].name) IN d # 0 => LitOK(s.defs[d].type, s.given[k].val)
R_InputFieldUnique(ns) == \A i \in Ids(ns) : \A g \in GivenSites(ns[i]) : \A k \in 1..Len(g) : ~DupKeys(g[k].val)
R_FragNameUnique(ns) == \A i, j \in Frags(ns) : i # j => ns[i].name # ns[j].name
CondsOf(ns) == {i \in Ids(ns) : ns[i].k = "FRAG" \/ (ns[i].k = "I" /\ ns[i].cond # "")}
R_TypeExists(ns) == \A i \in CondsOf(ns) : KnownType(ns[i].cond)
R_FragOnComposite(ns) == \A i \in CondsOf(ns) : KnownType(ns[i].cond) => IsComposite(ns[i].cond)
R_FragUsed(ns) == \A f \in Frags(ns) : \E o \in Ops(ns) : ns[f].name \in Reach(ns, o)
R_SpreadDefined(ns) == \A i \in Ids(ns) : ns[i].k = "S" => ns[i].name \in DefinedFragNames(ns)
R_NoCycles(ns) == \A f \in Frags(ns) : ns[f].name \notin Reach(ns, f)
Overlap(a, b) == ~(KnownType(a) /\ KnownType(b) /\ IsComposite(a) /\ IsComposite(b)) \/ Possible(a) \cap Possible(b) # {}
R_SpreadPossible(ns) == \A i \in Ids(ns) :
   /\ (ns[i].k = "I" /\ ns[i].cond # "" /\ ns[i].ptype # "") => Overlap(ns[i].cond, ns[i].ptype)
   /\ (ns[i].k = "S" /\ ns[i].ptype # "" /\ HasFrag(ns, ns[i].name)) => Overlap(ns[FragId(ns, ns[i].name)].cond, ns[i].ptype)
R_DirDefined(ns) == \A i \in Ids(ns) : \A k \in 1..Len(ns[i].dirs) : ns[i].dirs[k].name \in DOMAIN DirDefs
R_DirLocations(ns) == \A i \in Ids(ns) : \A k \in 1..Len(ns[i].dirs) :
                         ns[i].dirs[k].name \in DOMAIN DirDefs => LocOf(ns[i]) \in DirDefs[ns[i].dirs[k].name].locs
R_DirUnique(ns) == \A i \in Ids(ns) : NoDupNames(ns[i].dirs)
R_VarUnique(ns) == \A o \in Ops(ns) : NoDupNames(ns[o].vdefs)
R_VarInputTypes(ns) == \A o \in Ops(ns) : \A k \in 1..Len(ns[o].vdefs) :
                          LET n == Named(ns[o].vdefs[k].type) IN KnownType(n) /\ KindOf(n) \in {"SCALAR", "ENUM", "INPUT"}
\* variables used by a definition, nested literals included
AllVarsOfNode(n) == UNION {UNION {VarsIn(g[k].val) : k \in 1..Len(g)} : g \in GivenSites(n)}
AllVarsInDef(ns, d) == UNION {AllVarsOfNode(ns[i]) : i \in {j \in Ids(ns) : DefOf(ns, j) = d /\ ns[j].k # "RAWDEF"}}
AllVarsUsedBy(ns, o) == AllVarsInDef(ns, o) \cup UNION {AllVarsInDef(ns, f) : f \in FragIdsOf(ns, Reach(ns, o))}
DefinedVars(ns, o) == {ns[o].vdefs[k].name : k \in 1..Len(ns[o].vdefs)}
R_VarsDefined(ns) == \A o \in Ops(ns) : AllVarsUsedBy(ns, o) \subseteq DefinedVars(ns, o)
R_VarsUsed(ns) == \A o \in Ops(ns) : DefinedVars(ns, o) \subseteq AllVarsUsedBy(ns, o)
\* variable of type vt (with default?) used where pt is expected (location default?)
RECURSIVE TypeCompat(_, _)
TypeCompat(vt, pt) ==
  IF IsNN(pt) THEN IsNN(vt) /\ TypeCompat(Tail(vt), Tail(pt))
  ELSE IF IsNN(vt) THEN TypeCompat(Tail(vt), pt)
  ELSE IF IsList(pt) THEN IsList(vt) /\ TypeCompat(Tail(vt), Tail(pt))
  ELSE ~IsList(vt) /\ vt = pt
UsageOK(vd, pt, locHasDefault) ==
  IF IsNN(pt) /\ ~IsNN(vd.type)
  THEN (vd.hasDefault \/ locHasDefault) /\ TypeCompat(vd.type, Tail(pt))
  ELSE TypeCompat(vd.type, pt)
\* usages: (variable name, expected type, location has default) for top-level and nested positions
RECURSIVE UsagesIn(_, _, _)
UsagesIn(t, l, locDef) ==
  IF l.t = "var" THEN {[v |-> l.v, type |-> t, locDef |-> locDef]}
  ELSE LET core == IF IsNN(t) THEN Tail(t) ELSE t IN
       IF l.t = "list" THEN UNION {UsagesIn(IF IsList(core) THEN Tail(core) ELSE core, l.v[i], FALSE) : i \in 1..Len(l.v)}
       ELSE IF l.t = "obj" /\ KnownType(Named(core)) /\ KindOf(Named(core)) = "INPUT" THEN
            UNION {LET S == {j \in 1..Len(InputFieldsOf(Named(core))) : InputFieldsOf(Named(core))[j].name = l.v[i][1]} IN
                   IF S = {} THEN {} ELSE LET f == InputFieldsOf(Named(core))[CHOOSE j \in S : TRUE] IN UsagesIn(f.type, l.v[i][2], f.hasDefault)
                   : i \in 1..Len(l.v)}
       ELSE {}
UsagesOfNode(n) == UNION {UNION {LET d == ArgDefNamed(s.defs, s.given[k].name) IN
                                 IF d = 0 THEN {} ELSE UsagesIn(s.defs[d].type, s.given[k].val, s.defs[d].hasDefault)
                                 : k \in 1..Len(s.given)} : s \in ArgSites(n)}
UsagesInDef(ns, d) == UNION {UsagesOfNode(ns[i]) : i \in {j \in Ids(ns) : DefOf(ns, j) = d /\ ns[j].k # "RAWDEF"}}
UsagesBy(ns, o) == UsagesInDef(ns, o) \cup UNION {UsagesInDef(ns, f) : f \in FragIdsOf(ns, Reach(ns, o))}
R_VarUsageAllowed(ns) == \A o \in Ops(ns) : \A u \in UsagesBy(ns, o) :
   LET S == {k \in 1..Len(ns[o].vdefs) : ns[o].vdefs[k].name = u.v} IN
   S # {} => UsageOK(ns[o].vdefs[CHOOSE k \in S : TRUE], u.type, u.locDef)

RuleNames == <<"executable-definitions", "operation-name-uniqueness", "lone-anonymous-operation", "single-root-field",
               "field-selections", "leaf-field-selections", "argument-names", "argument-uniqueness", "required-arguments",
               "values-of-correct-type", "input-object-field-uniqueness", "fragment-name-uniqueness", "fragment-spread-type-existence",
               "fragments-on-composite-types", "fragment-must-be-used", "fragment-spread-target-defined", "fragment-spreads-must-not-form-cycles",
               "fragment-spread-is-possible", "directives-are-defined", "directives-are-in-valid-locations", "directives-are-unique-per-location",
               "variable-uniqueness", "variables-are-input-types", "all-variable-uses-defined", "all-variables-used", "all-variable-usages-are-allowed">>
Holds(r, ns) ==
  CASE r = "executable-definitions" -> R_ExecDefs(ns)
    [] r = "operation-name-uniqueness" -> R_OpNameUnique(ns)
    [] r = "lone-anonymous-operation" -> R_LoneAnon(ns)
    [] r = "single-root-field" -> R_SingleRoot(ns)
    [] r = "field-selections" -> R_FieldsExist(ns)
    [] r = "leaf-field-selections" -> R_Leafs(ns)
    [] r = "argument-names" -> R_ArgNames(ns)
    [] r = "argument-uniqueness" -> R_ArgUnique(ns)
    [] r = "required-arguments" -> R_RequiredArgs(ns)
    [] r = "values-of-correct-type" -> R_ValuesCorrect(ns)
    [] r = "input-object-field-uniqueness" -> R_InputFieldUnique(ns)
    [] r = "fragment-name-uniqueness" -> R_FragNameUnique(ns)
    [] r = "fragment-spread-type-existence" -> R_TypeExists(ns)
    [] r = "fragments-on-composite-types" -> R_FragOnComposite(ns)
    [] r = "fragment-must-be-used" -> R_FragUsed(ns)
    [] r = "fragment-spread-target-defined" -> R_SpreadDefined(ns)
    [] r = "fragment-spreads-must-not-form-cycles" -> R_NoCycles(ns)
    [] r = "fragment-spread-is-possible" -> R_SpreadPossible(ns)
    [] r = "directives-are-defined" -> R_DirDefined(ns)
    [] r = "directives-are-in-valid-locations" -> R_DirLocations(ns)
    [] r = "directives-are-unique-per-location" -> R_DirUnique(ns)
    [] r = "variable-uniqueness" -> R_VarUnique(ns)
    [] r = "variables-are-input-types" -> R_VarInputTypes(ns)
    [] r = "all-variable-uses-defined" -> R_VarsDefined(ns)
    [] r = "all-variables-used" -> R_VarsUsed(ns)
    [] r = "all-variable-usages-are-allowed" -> R_VarUsageAllowed(ns)
ValidAll(ns) == \A k \in 1..Len(RuleNames) : Holds(RuleNames[k], ns)
ViolatedRules(ns) == {RuleNames[k] : k \in {j \in 1..Len(RuleNames) : ~Holds(RuleNames[j], ns)}}

------------------------------------------------------------------------------
(* Rewrites                                                                        *)
SetAt(ns, i, n) == [ns EXCEPT ![i] = n]
\* insert node n (with n.parent already set) so that it becomes element `pos`
InsertAt(ns, pos, n) ==
  [j \in 1..(Len(ns) + 1) |->
     IF j < pos THEN (IF ns[j].parent >= pos THEN [ns[j] EXCEPT !.parent = @ + 1] ELSE ns[j])
     ELSE IF j = pos THEN n
     ELSE (IF ns[j - 1].parent >= pos THEN [ns[j - 1] EXCEPT !.parent = @ + 1] ELSE ns[j - 1])]
\* index just after the subtree of node i
RECURSIVE IsDesc(_, _, _)
IsDesc(ns, j, i) == IF j = i THEN TRUE ELSE IF ns[j].parent = 0 THEN FALSE ELSE IsDesc(ns, ns[j].parent, i)
EndOf(ns, i) == 1 + Cardinality({j \in Ids(ns) : j >= i /\ IsDesc(ns, j, i)}) + (i - 1)
AddChildLast(ns, i, n) == InsertAt(ns, EndOf(ns, i), [n EXCEPT !.parent = i])
AppendNodes(ns, more) == ns \o [j \in 1..Len(more) |-> IF more[j].parent = 0 THEN more[j] ELSE [more[j] EXCEPT !.parent = @ + Len(ns)]]

LitI(v) == [t |-> "int", v |-> v]
LitS(v) == [t |-> "str", v |-> v]
LitB(v) == [t |-> "bool", v |-> v]
LitVar(v) == [t |-> "var", v |-> v]
Arg(n, l) == [name |-> n, val |-> l]
DirIf(n, l) == [name |-> n, val |-> l]
DirG(n, as) == [name |-> n, args |-> as]

Min(S) == CHOOSE x \in S : \A y \in S : x <= y
SiteKind(ns, i) ==
  LET d == DefOf(ns, i) IN
  IF ns[i].parent # 0 /\ ns[ns[i].parent].k = "I" THEN "in-inline-fragment"
  ELSE IF ns[d].k = "FRAG" THEN "in-named-fragment"
  ELSE IF ns[i].parent = d THEN (IF d = Min(Ops(ns)) THEN "operation-root" ELSE "second-operation-root")
  ELSE "nested-selection"
\* add node n as last child of i, and a leaf field under it
AddChildWithLeaf(ns, i, n, leaf) ==
  LET pos == EndOf(ns, i)
      ns2 == InsertAt(ns, pos, [n EXCEPT !.parent = i]) IN
  InsertAt(ns2, pos + 1, [leaf EXCEPT !.parent = pos])

RW(rule, site, nds) == [rule |-> rule, site |-> site, nodes |-> nds]
FieldNodes(ns) == {i \in Ids(ns) : ns[i].k = "F"}
KnownFields(ns) == {i \in FieldNodes(ns) : KnownField(ns[i]) /\ ~IsMeta(ns[i])}
LeafFields(ns) == {i \in KnownFields(ns) : IsLeaf(Named(FDefOf(ns[i]).type))}
CompFields(ns) == KnownFields(ns) \ LeafFields(ns)
SelNodes(ns) == {i \in Ids(ns) : ns[i].k \in {"F", "I", "S"}}
NewF(name, ptype) == Mk("F", 0, name, "", "", <<>>, <<>>, "", ptype)

Rewrites(ns) ==
  LET o1 == Min(Ops(ns)) IN
  \* -- definitions
  {RW("executable-definitions", "document", Append(ns, Mk("RAWDEF", 0, "type Extra { a: Int }", "", "", <<>>, <<>>, "", "")))}
  \cup {RW("operation-name-uniqueness", "second-operation", AppendNodes(ns, <<[ns[o] EXCEPT !.vdefs = <<>>], NewF("__typename", Roots[ns[o].optype])>>
                                                                         )) : o \in {x \in Ops(ns) : ns[x].name # ""}}
  \cup {RW("operation-name-uniqueness", "second-operation",
           AppendNodes([ns EXCEPT ![o1] = [@ EXCEPT !.name = "Dup"]], <<[Mk("OP", 0, "Dup", "", "", <<>>, <<>>, "query", "")  EXCEPT !.parent = 0], [NewF("__typename", Roots.query) EXCEPT !.parent = 1]>>))}
  \* the same name borne by operations of different types
  \cup {RW("operation-name-uniqueness", "second-operation-of-another-type",
           AppendNodes([ns EXCEPT ![o1] = [@ EXCEPT !.name = "Dup"]], <<[Mk("OP", 0, "Dup", "", "", <<>>, <<>>, "mutation", "")  EXCEPT !.parent = 0], [NewF("m3", Roots.mutation) EXCEPT !.parent = 1]>>)) :
           x \in IF ns[o1].optype = "mutation" THEN {} ELSE {1}}
  \cup {RW("lone-anonymous-operation", "second-operation",
           AppendNodes([ns EXCEPT ![o1] = [@ EXCEPT !.name = ""]], <<Mk("OP", 0, x, "", "", <<>>, <<>>, "query", ""), [NewF("__typename", Roots.query) EXCEPT !.parent = 1]>>)) : x \in {"", "Other"}}
  \cup {RW("single-root-field", "operation-root", AddChildLast(ns, o, NewF("evs", Roots.subscription))) : o \in {x \in Ops(ns) : ns[x].optype = "subscription"}}
  \cup {RW("single-root-field", "second-operation-root",
           AppendNodes([ns EXCEPT ![o] = [@ EXCEPT !.name = IF @ = "" THEN "Q8" ELSE @]], <<Mk("OP", 0, "Sub2", "", "", <<>>, <<>>, "subscription", ""), [NewF("evs", Roots.subscription) EXCEPT !.parent = 1],
                             [[NewF("evs", Roots.subscription) EXCEPT !.parent = 1] EXCEPT !.alias = "other"]>>)) : o \in {x \in Ops(ns) : ns[x].optype = "subscription"}}
  \cup {RW("single-root-field", "in-named-fragment",
           AppendNodes(AddChildLast(ns, o, Mk("S", 0, "Two", "", "", <<>>, <<>>, "", Roots.subscription)),
                       <<Mk("FRAG", 0, "Two", "", Roots.subscription, <<>>, <<>>, "", ""), [NewF("evs", Roots.subscription) EXCEPT !.parent = 1]>>)) : o \in {x \in Ops(ns) : ns[x].optype = "subscription"}}
  \* -- fields
  \cup {RW("field-selections", SiteKind(ns, i), SetAt(ns, i, [ns[i] EXCEPT !.name = "nope", !.args = <<>>])) : i \in LeafFields(ns)}
  \cup {RW("field-selections", SiteKind(ns, i), AddChildLast(ns, i, NewF("nope", Named(FDefOf(ns[i]).type)))) : i \in CompFields(ns)}
  \cup {RW("leaf-field-selections", SiteKind(ns, i), AddChildLast(ns, i, NewF("__typename", ""))) : i \in LeafFields(ns)}
  \cup {RW("leaf-field-selections", SiteKind(ns, i), AddChildLast(ns, ns[i].parent, [ns[i] EXCEPT !.alias = "bare", !.dirs = <<>>])) : i \in CompFields(ns)}
  \* -- arguments
  \cup {RW("argument-names", SiteKind(ns, i), SetAt(ns, i, [ns[i] EXCEPT !.args = Append(@, Arg("zz", LitI(1)))])) : i \in KnownFields(ns)}
  \cup {RW("argument-names", "directive-argument", SetAt(ns, i, [ns[i] EXCEPT !.dirs = Append(@, DirG("skip", <<Arg("if", LitB(FALSE)), Arg("zz", LitI(1))>>))])) : i \in {j \in SelNodes(ns) : ns[j].dirs = <<>>}}
  \cup {RW("argument-uniqueness", SiteKind(ns, i), SetAt(ns, i, [ns[i] EXCEPT !.args = Append(@, @[1])])) : i \in {j \in KnownFields(ns) : ns[j].args # <<>>}}
  \* the duplicate is not adjacent to the original:  f(a: 1, b: "q", a: 3)
  \cup {RW("argument-uniqueness", "duplicate-not-adjacent", SetAt(ns, i, [ns[i] EXCEPT !.args = <<Arg("a", LitI(1)), Arg("b", LitS("q")), Arg("a", LitI(3))>>])) :
           i \in {j \in KnownFields(ns) : ns[j].name = "f"}}
  \cup {RW("argument-uniqueness", "directive-argument", SetAt(ns, i, [ns[i] EXCEPT !.dirs = Append(@, DirG("include", <<Arg("if", LitB(TRUE)), Arg("if", LitB(TRUE))>>))])) : i \in {j \in SelNodes(ns) : ns[j].dirs = <<>>}}
  \cup {RW("required-arguments", SiteKind(ns, i), SetAt(ns, i, [ns[i] EXCEPT !.args = <<>>])) : i \in {j \in KnownFields(ns) : \E d \in 1..Len(FDefOf(ns[j]).args) : IsNN(FDefOf(ns[j]).args[d].type)}}
  \cup {RW("required-arguments", "directive-argument", SetAt(ns, i, [ns[i] EXCEPT !.dirs = Append(@, DirG("skip", <<>>))])) : i \in {j \in SelNodes(ns) : ns[j].dirs = <<>>}}
  \cup {RW("values-of-correct-type", SiteKind(ns, i), SetAt(ns, i, [ns[i] EXCEPT !.args = <<Arg(FDefOf(ns[i]).args[1].name, bad)>>])) :
           i \in {j \in KnownFields(ns) : FDefOf(ns[j]).args # <<>>}, bad \in {[t |-> "obj", v |-> << <<"q", LitI(1)>> >>], [t |-> "enum", v |-> "NOPE"]}}
  \cup {RW("values-of-correct-type", "directive-argument", SetAt(ns, i, [ns[i] EXCEPT !.dirs = Append(@, DirIf("skip", LitS("yes")))])) : i \in {j \in SelNodes(ns) : ns[j].dirs = <<>>}}
  \cup {RW("values-of-correct-type", "nested-input-value", SetAt(ns, i, [ns[i] EXCEPT !.args = <<Arg("i", bad)>>])) :
           i \in {j \in KnownFields(ns) : ns[j].name = "h"},
           bad \in {[t |-> "obj", v |-> << <<"r", LitS("x")>> >>], [t |-> "obj", v |-> << <<"r", LitI(1)>>, <<"l", [t |-> "list", v |-> <<LitI(1), LitB(TRUE)>>]>> >>],
                    [t |-> "obj", v |-> << <<"r", LitI(1)>>, <<"n", [t |-> "obj", v |-> <<>>]>> >>], [t |-> "obj", v |-> << <<"r", LitI(1)>>, <<"zz", LitI(1)>> >>],
                    [t |-> "obj", v |-> << <<"r", [t |-> "null", v |-> 0]>> >>], [t |-> "obj", v |-> << <<"r", LitI(1)>>, <<"e", LitS("X")>> >>]}}
  \cup {RW("input-object-field-uniqueness", "nested-input-value", SetAt(ns, i, [ns[i] EXCEPT !.args = <<Arg("i", bad)>>])) :
           i \in {j \in KnownFields(ns) : ns[j].name = "h"},
           bad \in {[t |-> "obj", v |-> << <<"r", LitI(1)>>, <<"r", LitI(2)>> >>], [t |-> "obj", v |-> << <<"r", LitI(1)>>, <<"n", [t |-> "obj", v |-> << <<"r", LitI(1)>>, <<"l", LitI(1)>>, <<"l", LitI(1)>> >>]>> >>]}}
  \* -- fragments
  \cup {RW("fragment-name-uniqueness", "second-fragment", AppendNodes(ns, <<[ns[f] EXCEPT !.dirs = <<>>], [NewF("__typename", ns[f].cond) EXCEPT !.parent = 1]>>)) : f \in Frags(ns)}
  \cup {RW("fragment-spread-type-existence", SiteKind(ns, i), SetAt(ns, i, [ns[i] EXCEPT !.cond = "Nope"])) : i \in {j \in Ids(ns) : ns[j].k = "I"}}
  \cup {RW("fragment-spread-type-existence", "fragment-definition", SetAt(ns, f, [ns[f] EXCEPT !.cond = "Nope"])) : f \in Frags(ns)}
  \cup {RW("fragments-on-composite-types", SiteKind(ns, i), SetAt(ns, i, [ns[i] EXCEPT !.cond = c])) : i \in {j \in Ids(ns) : ns[j].k = "I"}, c \in {"String", "E"}}
  \cup {RW("fragments-on-composite-types", "fragment-definition", SetAt(ns, f, [ns[f] EXCEPT !.cond = c])) : f \in Frags(ns), c \in {"Int", "E"}}
  \* a type condition naming an INPUT object type, over a selection of meta fields only (nothing else could object to it)
  \cup {RW("fragments-on-composite-types", "inline-fragment-on-an-input-type", AddChildWithLeaf(ns, i, Mk("I", 0, "", "", "In", <<>>, <<>>, "", Named(FDefOf(ns[i]).type)), NewF("__typename", "In"))) :
           i \in CompFields(ns)}
  \cup {RW("fragment-must-be-used", "second-fragment", AppendNodes(ns, <<Mk("FRAG", 0, "Unused", "", c, <<>>, <<>>, "", ""), [NewF("__typename", c) EXCEPT !.parent = 1]>>)) : c \in {"T", "Query"}}
  \cup {RW("fragment-spread-target-defined", SiteKind(ns, i), AddChildLast(ns, ns[i].parent, Mk("S", 0, "Undefined", "", "", <<>>, <<>>, "", ns[i].ptype))) : i \in SelNodes(ns)}
  \cup {RW("fragment-spreads-must-not-form-cycles", "fragment-definition", AddChildLast(ns, f, Mk("S", 0, ns[f].name, "", "", <<>>, <<>>, "", ns[f].cond))) : f \in Frags(ns)}
  \cup {RW("fragment-spreads-must-not-form-cycles", "nested-selection", AddChildLast(ns, i, Mk("S", 0, ns[DefOf(ns, i)].name, "", "", <<>>, <<>>, "", Named(FDefOf(ns[i]).type)))) :
           i \in {j \in CompFields(ns) : ns[DefOf(ns, j)].k = "FRAG" /\ Named(FDefOf(ns[j]).type) = ns[DefOf(ns, j)].cond}}
  \cup {RW("fragment-spreads-must-not-form-cycles", "second-fragment",
           AppendNodes(AddChildLast(ns, f, Mk("S", 0, "Loop", "", "", <<>>, <<>>, "", ns[f].cond)),
                       <<Mk("FRAG", 0, "Loop", "", ns[f].cond, <<>>, <<>>, "", ""), [Mk("S", 0, ns[f].name, "", "", <<>>, <<>>, "", ns[f].cond) EXCEPT !.parent = 1]>>)) : f \in Frags(ns)}
  \cup {RW("fragment-spread-is-possible", SiteKind(ns, i), AddChildWithLeaf(ns, i, Mk("I", 0, "", "", c, <<>>, <<>>, "", "T"), NewF("__typename", c))) :
           i \in {j \in CompFields(ns) : Named(FDefOf(ns[j]).type) = "T"}, c \in {"C", "P", "Query"}}
  \* an abstract type condition inside a selection of another abstract type with no object type in common (V = C, P = A | B)
  \cup {RW("fragment-spread-is-possible", "abstract-in-disjoint-abstract", AddChildWithLeaf(ns, i, Mk("I", 0, "", "", "V", <<>>, <<>>, "", "P"), NewF("__typename", "V"))) :
           i \in {j \in CompFields(ns) : Named(FDefOf(ns[j]).type) = "P"}}
  \cup {RW("fragment-spread-is-possible", "in-inline-fragment", AddChildWithLeaf(ns, i, Mk("I", 0, "", "", "C", <<>>, <<>>, "", "A"), NewF("__typename", "C"))) :
           i \in {j \in Ids(ns) : ns[j].k = "I" /\ ns[j].cond = "A"}}
  \cup {RW("fragment-spread-is-possible", "named-spread", AppendNodes(AddChildLast(ns, i, Mk("S", 0, "Imp", "", "", <<>>, <<>>, "", "T")),
                       <<Mk("FRAG", 0, "Imp", "", "A", <<>>, <<>>, "", ""), [NewF("s", "A") EXCEPT !.parent = 1]>>)) : i \in {j \in CompFields(ns) : Named(FDefOf(ns[j]).type) = "T"}}
  \* -- directives
  \cup {RW("directives-are-defined", SiteKind(ns, i), SetAt(ns, i, [ns[i] EXCEPT !.dirs = Append(@, DirG("nope", <<>>))])) : i \in SelNodes(ns)}
  \cup {RW("directives-are-defined", "operation", SetAt(ns, o1, [ns[o1] EXCEPT !.dirs = <<DirG("nope", <<>>)>>, !.name = IF @ = "" THEN "Q9" ELSE @]))}
  \cup {RW("directives-are-in-valid-locations", SiteKind(ns, i), SetAt(ns, i, [ns[i] EXCEPT !.dirs = Append(@, DirG("deprecated", <<>>))])) : i \in SelNodes(ns)}
  \cup {RW("directives-are-in-valid-locations", "operation", SetAt(ns, o1, [ns[o1] EXCEPT !.dirs = <<DirIf("skip", LitB(FALSE))>>, !.name = IF @ = "" THEN "Q9" ELSE @]))}
  \cup {RW("directives-are-in-valid-locations", "fragment-definition", SetAt(ns, f, [ns[f] EXCEPT !.dirs = <<DirIf("include", LitB(TRUE))>>])) : f \in Frags(ns)}
  \cup {RW("directives-are-unique-per-location", SiteKind(ns, i), SetAt(ns, i, [ns[i] EXCEPT !.dirs = @ \o <<DirIf("skip", LitB(FALSE)), DirIf("skip", LitB(FALSE))>>])) :
           i \in {j \in SelNodes(ns) : \A k \in 1..Len(ns[j].dirs) : ns[j].dirs[k].name # "skip"}}
  \* -- variables
  \cup {RW("variable-uniqueness", "variable-definition", SetAt(ns, o, [ns[o] EXCEPT !.vdefs = Append(@, @[1])])) : o \in {x \in Ops(ns) : ns[x].vdefs # <<>>}}
  \cup {RW("variables-are-input-types", "variable-definition",
           SetAt(SetAt(ns, DefOf(ns, i), [ns[DefOf(ns, i)] EXCEPT !.vdefs = Append(@, [name |-> "bad", type |-> ty, hasDefault |-> FALSE, default |-> NoLit]), !.name = IF @ = "" THEN "Q9" ELSE @]),
                 i, [ns[i] EXCEPT !.dirs = Append(@, DirIf("skip", LitVar("bad")))])) :
           i \in {j \in SelNodes(ns) : ns[DefOf(ns, j)].k = "OP" /\ ns[j].dirs = <<>>}, ty \in {<<"T">>, <<"L", "P">>, <<"NN", "U">>, <<"Nope">>}}
  \cup {RW("all-variable-uses-defined", SiteKind(ns, i), SetAt(ns, i, [ns[i] EXCEPT !.dirs = Append(@, DirIf("include", LitVar("undef")))])) : i \in {j \in SelNodes(ns) : ns[j].dirs = <<>>}}
  \cup {RW("all-variable-uses-defined", "nested-input-value", SetAt(ns, i, [ns[i] EXCEPT !.args = <<Arg("i", [t |-> "obj", v |-> << <<"r", LitVar("undef")>> >>])>>])) :
           i \in {j \in KnownFields(ns) : ns[j].name = "h"}}
  \cup {RW("all-variables-used", "variable-definition", SetAt(ns, o, [ns[o] EXCEPT !.vdefs = Append(@, [name |-> "unused", type |-> <<"Int">>, hasDefault |-> FALSE, default |-> NoLit]),
                                                                               !.name = IF @ = "" THEN "Q9" ELSE @])) : o \in Ops(ns)}
  \cup {RW("all-variable-usages-are-allowed", SiteKind(ns, i),
           SetAt(SetAt(ns, DefOf(ns, i), [ns[DefOf(ns, i)] EXCEPT !.vdefs = Append(@, [name |-> "bad", type |-> ty, hasDefault |-> FALSE, default |-> NoLit]), !.name = IF @ = "" THEN "Q9" ELSE @]),
                 i, [ns[i] EXCEPT !.dirs = Append(@, DirIf("skip", LitVar("bad")))])) :
           i \in {j \in SelNodes(ns) : ns[DefOf(ns, j)].k = "OP" /\ ns[j].dirs = <<>>}, ty \in {<<"Boolean">>, <<"NN", "Int">>, <<"L", "Boolean">>}}
  \* two operations sharing a fragment: the first declares the variable compatibly, the second does not / not at all
  \cup {RW(r, "shared-fragment-second-operation",
           AppendNodes(ns, << [Mk("OP", 0, "OkOp", "", "", <<>>, <<>>, "query", "") EXCEPT !.vdefs = <<[name |-> "zz", type |-> <<"Int">>, hasDefault |-> FALSE, default |-> NoLit]>>],
                              [Mk("S", 0, "VF", "", "", <<>>, <<>>, "", Roots.query) EXCEPT !.parent = 1],
                              [Mk("OP", 0, "BadOp", "", "", <<>>, <<>>, "query", "") EXCEPT !.vdefs = IF r = "all-variable-uses-defined" THEN <<>> ELSE <<[name |-> "zz", type |-> <<"String">>, hasDefault |-> FALSE, default |-> NoLit]>>],
                              [Mk("S", 0, "VF", "", "", <<>>, <<>>, "", Roots.query) EXCEPT !.parent = 3],
                              Mk("FRAG", 0, "VF", "", Roots.query, <<>>, <<>>, "", ""),
                              [Mk("F", 0, "f", "", "", <<Arg("a", LitVar("zz"))>>, <<>>, "", Roots.query) EXCEPT !.parent = 5] >>)) :
           r \in {"all-variable-usages-are-allowed", "all-variable-uses-defined"}}
  \* an operation that does not use its variable bears the NAME of a fragment that uses it (operations and fragments have
  \* separate name spaces); another operation spreads that fragment legitimately
  \cup {RW("all-variables-used", "operation-named-like-a-fragment-using-the-variable",
           AppendNodes(ns, << [Mk("OP", 0, "UseOp", "", "", <<>>, <<>>, "query", "") EXCEPT !.vdefs = <<[name |-> "zz", type |-> <<"Int">>, hasDefault |-> FALSE, default |-> NoLit]>>],
                              [Mk("S", 0, "VU", "", "", <<>>, <<>>, "", Roots.query) EXCEPT !.parent = 1],
                              [Mk("OP", 0, "VU", "", "", <<>>, <<>>, "query", "") EXCEPT !.vdefs = <<[name |-> "zz", type |-> <<"Int">>, hasDefault |-> FALSE, default |-> NoLit]>>],
                              [Mk("F", 0, "s", "", "", <<>>, <<>>, "", Roots.query) EXCEPT !.parent = 3],
                              Mk("FRAG", 0, "VU", "", Roots.query, <<>>, <<>>, "", ""),
                              [Mk("F", 0, "f", "", "", <<Arg("a", LitVar("zz"))>>, <<>>, "", Roots.query) EXCEPT !.parent = 5] >>))}
  \* two operations sharing fragments only partially: the first spreads VA (uses $zz) and VB (uses $yy), the second spreads
  \* VA only but declares both variables - its $yy is unused, although a fragment of the document uses a variable of that name
  \cup {RW("all-variables-used", "variable-used-only-by-a-fragment-of-another-operation",
           AppendNodes(ns, << [Mk("OP", 0, "BothOp", "", "", <<>>, <<>>, "query", "") EXCEPT !.vdefs = <<[name |-> "zz", type |-> <<"Int">>, hasDefault |-> FALSE, default |-> NoLit],
                                                                                                      [name |-> "yy", type |-> <<"Int">>, hasDefault |-> FALSE, default |-> NoLit]>>],
                              [Mk("S", 0, "VA", "", "", <<>>, <<>>, "", Roots.query) EXCEPT !.parent = 1],
                              [Mk("S", 0, "VB", "", "", <<>>, <<>>, "", Roots.query) EXCEPT !.parent = 1],
                              [Mk("OP", 0, "OneOp", "", "", <<>>, <<>>, "query", "") EXCEPT !.vdefs = <<[name |-> "zz", type |-> <<"Int">>, hasDefault |-> FALSE, default |-> NoLit],
                                                                                                     [name |-> "yy", type |-> <<"Int">>, hasDefault |-> FALSE, default |-> NoLit]>>],
                              [Mk("S", 0, "VA", "", "", <<>>, <<>>, "", Roots.query) EXCEPT !.parent = 4],
                              Mk("FRAG", 0, "VA", "", Roots.query, <<>>, <<>>, "", ""),
                              [Mk("F", 0, "f", "", "", <<Arg("a", LitVar("zz"))>>, <<>>, "", Roots.query) EXCEPT !.parent = 6],
                              Mk("FRAG", 0, "VB", "", Roots.query, <<>>, <<>>, "", ""),
                              [Mk("F", 0, "f", "", "", <<Arg("a", LitVar("yy"))>>, <<>>, "", Roots.query) EXCEPT !.parent = 8] >>))}
  \* the disallowed / undefined usage sits in a fragment reached only through another fragment
  \cup {RW(r, "fragment-spread-by-a-fragment",
           AppendNodes(ns, << [Mk("OP", 0, "DeepOp", "", "", <<>>, <<>>, "query", "") EXCEPT !.vdefs = IF r = "all-variable-uses-defined" THEN <<>> ELSE <<[name |-> "zz", type |-> <<"String">>, hasDefault |-> FALSE, default |-> NoLit]>>],
                              [Mk("S", 0, "VG1", "", "", <<>>, <<>>, "", Roots.query) EXCEPT !.parent = 1],
                              Mk("FRAG", 0, "VG1", "", Roots.query, <<>>, <<>>, "", ""),
                              [Mk("S", 0, "VG2", "", "", <<>>, <<>>, "", Roots.query) EXCEPT !.parent = 3],
                              Mk("FRAG", 0, "VG2", "", Roots.query, <<>>, <<>>, "", ""),
                              [Mk("F", 0, "f", "", "", <<Arg("a", LitVar("zz"))>>, <<>>, "", Roots.query) EXCEPT !.parent = 5] >>)) :
           r \in {"all-variable-usages-are-allowed", "all-variable-uses-defined"}}
  \* an ill-typed literal placed after a variable in the same list
  \cup {RW("values-of-correct-type", "list-element-after-variable",
           SetAt(SetAt(ns, DefOf(ns, i), [ns[DefOf(ns, i)] EXCEPT !.vdefs = Append(@, [name |-> "lv", type |-> <<"Int">>, hasDefault |-> FALSE, default |-> NoLit]), !.name = IF @ = "" THEN "Q9" ELSE @]),
                 i, [ns[i] EXCEPT !.args = <<Arg("i", [t |-> "obj", v |-> << <<"r", LitI(1)>>, <<"l", [t |-> "list", v |-> <<LitVar("lv"), LitS("oops")>>]>> >>])>>])) :
           i \in {j \in KnownFields(ns) : ns[j].name = "h" /\ ns[DefOf(ns, j)].k = "OP"}}
  \cup {RW("all-variable-usages-are-allowed", "nested-input-value",
           SetAt(SetAt(ns, DefOf(ns, i), [ns[DefOf(ns, i)] EXCEPT !.vdefs = Append(@, [name |-> "bad", type |-> <<"String">>, hasDefault |-> FALSE, default |-> NoLit]), !.name = IF @ = "" THEN "Q9" ELSE @]),
                 i, [ns[i] EXCEPT !.args = <<Arg("i", lit)>>])) :
           i \in {j \in KnownFields(ns) : ns[j].name = "h" /\ ns[DefOf(ns, j)].k = "OP"},
           lit \in {[t |-> "obj", v |-> << <<"r", LitVar("bad")>> >>], [t |-> "obj", v |-> << <<"r", LitI(1)>>, <<"l", [t |-> "list", v |-> <<LitVar("bad")>>]>> >>]}}
=============================================================================
