------------------------------- MODULE Sched --------------------------------
(* The field-task scheduler, at the grain of the implementation.

   The engine is deterministic between two idle points of the event loop, so the
   whole state of one request in flight is `released`: the set of resolver instances
   (response paths) whose await has been satisfied.  Sim(C, F, released) re-plays the
   code's control flow with blocking semantics up to the next idle point:

     execute_fields        walks the collected keys in order, awaits INLINE every field
                           whose effective parent_concurrently is false - stopping there
                           while it is blocked, and aborting the whole selection set
                           (later siblings never start, the concurrent coroutines
                           created so far are dropped unstarted) if it fails through a
                           non-null type - and only then gathers all concurrent
                           siblings together (waits for all, then raises all failures)
     execute_fields_serially  (mutation roots) one after the other, abort at the first
                           failure through a non-null root
     list coercion         concurrent: all items at once; sequential: item i+1 only when
                           item i's whole subtree is complete (a failing item does not
                           stop the walk)
     argument failure      completes the field without starting its resolver

   F = [seq, lconc]: seq = set of field names whose parent_concurrently is false,
   lconc = whether lists are coerced concurrently.
   Result: [st \in {"B","ok","fail"}, v, errs, up, nulls, started]
   "B" = blocked on the resolvers in started \ released.                           *)
EXTENDS GQL

SRes(st, v, e, u, n, s) == [st |-> st, v |-> v, errs |-> e, up |-> u, nulls |-> n, started |-> s]
SOk(v)            == SRes("ok", v, {}, {}, {}, {})
SFailAt(path, ids) == SRes("fail", Null, {[path |-> path, nodes |-> ids]}, {path}, {}, {})
SBlocked(s)       == SRes("B", Null, {}, {}, {}, s)
SCaught(t, path, r) ==
  IF r.st = "fail" /\ ~IsNN(t)
  THEN SRes("ok", Null, r.errs, {}, r.nulls \cup {[at |-> path, why |-> r.up]}, r.started)
  ELSE r
WithStarted(r, s) == [r EXCEPT !.started = @ \cup s]

RECURSIVE SField(_, _, _, _, _, _, _), SComplete(_, _, _, _, _, _, _), SItems(_, _, _, _, _, _, _, _),
          SSeqPhase(_, _, _, _, _, _, _, _), SConcPhase(_, _, _, _, _, _, _, _), SSerial(_, _, _, _, _, _, _)

IsSeqField(F, node) == node.name \in F.seq

\* one field instance
SField(C, F, rel, rt, entry, path, parentId) ==
  LET me    == Append(path, entry[1])
      node  == C.nodes[entry[2][1]]
      fname == node.name
      fdef  == FieldDef(rt, fname) IN
  IF fname = "__typename" THEN SOk(Str(rt))
  ELSE
  LET args == CoerceArgs(C, fdef, node) IN
  IF ~args.ok THEN SCaught(fdef.type, me, SFailAt(me, entry[2]))
  ELSE IF fdef.res = "R" /\ me \notin rel THEN SBlocked({me})
  ELSE LET raw == RawAt(C, fdef.type, me, parentId, fname, args.v)
           r   == SComplete(SetFK(C, rt \o "." \o fname), F, rel, fdef.type, raw, me, entry[2])
           mine == IF fdef.res = "R" THEN {me} ELSE {} IN
       IF r.st = "B" THEN WithStarted(r, mine)
       ELSE WithStarted(SCaught(fdef.type, me, r), mine)

SComplete(C, F, rel, t, raw, path, ids) ==
  IF raw.r \in {"raise", "raiseLib", "exc"} THEN SFailAt(path, ids)
  ELSE IF IsNN(t) THEN
     LET r == SComplete(C, F, rel, Tail(t), raw, path, ids) IN
     IF r.st = "ok" /\ IsNull(r.v)
     THEN SRes("fail", Null, r.errs \cup {[path |-> path, nodes |-> ids]}, {path}, r.nulls, r.started)
     ELSE r
  ELSE IF raw.r = "null" THEN SOk(Null)
  ELSE IF IsList(t) THEN
     IF raw.r # "list" THEN SFailAt(path, ids)
     ELSE SItems(C, F, rel, Tail(t), raw.v, path, ids, 1)
  ELSE IF IsLeaf(Named(t)) THEN
     IF raw.r = "leaf" THEN SOk(OutC(Named(t), raw.v)) ELSE SFailAt(path, ids)
  ELSE
     IF raw.r # "obj" THEN SFailAt(path, ids)
     ELSE LET tn == RTOf(C, t, raw) IN
          IF tn \notin DOMAIN Types THEN SFailAt(path, ids)
          ELSE IF KindOf(tn) # "OBJECT" \/ ~TypeApplies(tn, Named(t)) THEN SFailAt(path, ids)
          ELSE LET grouped == Collect(C, tn, ids) IN
               SSeqPhase(C, F, rel, tn, grouped, path, raw.id, 1)

\* list items from index i on
SItems(C, F, rel, it, items, path, ids, i) ==
  IF i > Len(items) THEN SOk(Lst(<<>>))
  ELSE LET ip == Append(path, Idx(i - 1))
           r0 == SComplete(C, F, rel, it, items[i], ip, ids)
           r  == IF r0.st = "B" THEN r0 ELSE SCaught(it, ip, r0) IN
       IF r.st = "B" /\ ~F.lconc THEN r                    \* sequential: later items not started yet
       ELSE LET rest == SItems(C, F, rel, it, items, path, ids, i + 1) IN
            IF r.st = "B" \/ rest.st = "B" THEN SBlocked(r.started \cup rest.started)
            ELSE IF r.st = "fail" \/ rest.st = "fail"
                 THEN SRes("fail", Null, r.errs \cup rest.errs, r.up \cup rest.up, r.nulls \cup rest.nulls, r.started \cup rest.started)
                 ELSE SRes("ok", Lst(<<r.v>> \o rest.v.v), r.errs \cup rest.errs, {}, r.nulls \cup rest.nulls, r.started \cup rest.started)

\* execute_fields, phase 1: the inline-awaited (sequential) entries in order; then phase 2.
\* Values are assembled at the end in key order by SConcPhase.
SSeqPhase(C, F, rel, rt, grouped, path, parentId, i) ==
  IF i > Len(grouped) THEN SConcPhase(C, F, rel, rt, grouped, path, parentId, 1)
  ELSE IF ~IsSeqField(F, C.nodes[grouped[i][2][1]]) THEN SSeqPhase(C, F, rel, rt, grouped, path, parentId, i + 1)
  ELSE LET r == SField(C, F, rel, rt, grouped[i], path, parentId) IN
       IF r.st = "B" THEN r
       ELSE IF r.st = "fail" THEN r            \* abort: nothing after it starts
       ELSE LET rest == SSeqPhase(C, F, rel, rt, grouped, path, parentId, i + 1) IN
            IF rest.st = "B" THEN SBlocked(r.started \cup rest.started)
            ELSE IF rest.st = "fail"
                 THEN SRes("fail", Null, r.errs \cup rest.errs, rest.up, r.nulls \cup rest.nulls, r.started \cup rest.started)
                 ELSE SRes("ok", rest.v, r.errs \cup rest.errs, {}, r.nulls \cup rest.nulls, r.started \cup rest.started)

\* phase 2 (reached only when every sequential entry completed without failing): all
\* concurrent entries are started together; the value lists every entry in key order
\* (sequential entries are re-evaluated for their value: they are complete, hence pure).
SConcPhase(C, F, rel, rt, grouped, path, parentId, i) ==
  IF i > Len(grouped) THEN SOk(Obj(<<>>))
  ELSE LET isSeq == IsSeqField(F, C.nodes[grouped[i][2][1]])
           r0 == SField(C, F, rel, rt, grouped[i], path, parentId)
           \* a sequential entry was already accounted for in phase 1: keep only its value
           r  == IF isSeq THEN SRes(r0.st, r0.v, {}, {}, {}, {}) ELSE r0
           rest == SConcPhase(C, F, rel, rt, grouped, path, parentId, i + 1) IN
       IF r.st = "B" \/ rest.st = "B" THEN SBlocked(r.started \cup rest.started)
       ELSE IF r.st = "fail" \/ rest.st = "fail"
            THEN SRes("fail", Null, r.errs \cup rest.errs, r.up \cup rest.up, r.nulls \cup rest.nulls, r.started \cup rest.started)
            ELSE SRes("ok", Obj(<<<<grouped[i][1], r.v>>>> \o rest.v.v), r.errs \cup rest.errs, {}, r.nulls \cup rest.nulls, r.started \cup rest.started)

\* execute_fields_serially (mutation roots)
SSerial(C, F, rel, rt, grouped, parentId, i) ==
  IF i > Len(grouped) THEN SOk(Obj(<<>>))
  ELSE LET r == SField(C, F, rel, rt, grouped[i], <<>>, parentId) IN
       IF r.st = "B" THEN r
       ELSE IF r.st = "fail" THEN r
       ELSE LET rest == SSerial(C, F, rel, rt, grouped, parentId, i + 1) IN
            IF rest.st = "B" THEN SBlocked(r.started \cup rest.started)
            ELSE IF rest.st = "fail"
                 THEN SRes("fail", Null, r.errs \cup rest.errs, rest.up, r.nulls \cup rest.nulls, r.started \cup rest.started)
                 ELSE SRes("ok", Obj(<<<<grouped[i][1], r.v>>>> \o rest.v.v), r.errs \cup rest.errs, {}, r.nulls \cup rest.nulls, r.started \cup rest.started)

Sim(C, F, rel) ==
  LET rt == RootType(C)
      grouped == Collect(C, rt, <<C.op>>) IN
  IF C.nodes[C.op].optype = "mutation"
  THEN SSerial(C, F, rel, rt, grouped, "", 1)
  ELSE SSeqPhase(C, F, rel, rt, grouped, <<>>, "", 1)

SimDone(s) == s.st # "B"
SimData(s) == IF s.st = "fail" THEN Null ELSE s.v
SimNulls(s) == IF s.st = "fail" THEN s.nulls \cup {[at |-> <<>>, why |-> s.up]} ELSE s.nulls
=============================================================================
