SPECIFICATION Spec
CONSTANTS
  MODE = "ways"
  TLO = 61
  THI = 99
INVARIANT R1_Ways
INVARIANT EmitWays
CHECK_DEADLOCK FALSE
