SPECIFICATION SpecM
CONSTANTS
  Types <- TypesExec
  Roots <- RootsExec
  MaxSel = 4
  MaxDepth = 2
  MaxFrags = 2
  MaxOps = 1
  OpTypes = {"query"}
  FieldAlpha <- AlphaMultiN
  Aliases = {""}
  Conds = {"T"}
  DirOpts <- NoDirs
  ArgOpts <- ArgOptsNone
  VarTypes <- VarTypesStd
  VarVals <- VarValsStd
  MaxOverlay = 0
  TRSets <- NoTR
  FalsyOverlays = FALSE
  MaxFaults = 1
  SeqFields = {}
  LConc = TRUE
  NReq = 2
  OverlayKinds = {}
INVARIANT R1_Multi
INVARIANT EmitM
CHECK_DEADLOCK FALSE
