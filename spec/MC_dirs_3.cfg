SPECIFICATION Spec
CONSTANTS MaxSum = 3
INVARIANT R1_Dirs
INVARIANT Emit
CHECK_DEADLOCK FALSE
