------------------------------- MODULE Values -------------------------------
(* Tagged abstract values shared by every module.  Every value is a record with a
   tag field `t` so that TLC never compares values of different TLA+ types and JSON
   `null` never has to be produced.  Objects are *sequences* of <<key, value>> pairs:
   response-key order is observable and part of C01.                              *)
EXTENDS Naturals, Sequences, FiniteSets, TLC

Null      == [t |-> "N"]
Bool(b)   == [t |-> "B", v |-> b]
Int(i)    == [t |-> "I", v |-> i]
Str(s)    == [t |-> "S", v |-> s]
Enum(s)   == [t |-> "E", v |-> s]
Tok(k)    == [t |-> "K", v |-> k]          \* boundary-class token (see Scalars.tla)
Lst(sq)   == [t |-> "L", v |-> sq]
Obj(prs)  == [t |-> "O", v |-> prs]
Absent    == [t |-> "A"]                   \* "no value" (distinct from Null)

IsNull(x)   == x.t = "N"
IsAbsent(x) == x.t = "A"

\* structural equality that never compares payloads of different tags
RECURSIVE VEq(_, _)
VEq(a, b) ==
  IF a.t # b.t THEN FALSE
  ELSE IF a.t \in {"N", "A"} THEN TRUE
  ELSE IF a.t = "L" THEN Len(a.v) = Len(b.v) /\ \A i \in 1..Len(a.v) : VEq(a.v[i], b.v[i])
  ELSE IF a.t = "O" THEN Len(a.v) = Len(b.v)
                         /\ \A i \in 1..Len(a.v) : a.v[i][1] = b.v[i][1] /\ VEq(a.v[i][2], b.v[i][2])
  ELSE a.v = b.v

\* Paths are sequences of strings; list indices are written "#0", "#1", ...
Idx(i) == "#" \o ToString(i)
IsPrefixPath(p, q) == Len(p) <= Len(q) /\ \A i \in 1..Len(p) : p[i] = q[i]

RECURSIVE JoinPath(_)
JoinPath(p) == IF p = <<>> THEN "" ELSE IF Len(p) = 1 THEN p[1] ELSE p[1] \o "/" \o JoinPath(Tail(p))

SeqToSet(sq) == {sq[i] : i \in 1..Len(sq)}
=============================================================================
