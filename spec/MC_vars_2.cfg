SPECIFICATION Spec
CONSTANTS
  MODE = "vars"
  TLO = 33
  THI = 44
INVARIANT R1_Vars
INVARIANT EmitVars
CHECK_DEADLOCK FALSE
