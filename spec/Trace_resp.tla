------------------------------ MODULE Trace_resp -----------------------------
(* R3: recorded executions of the real engine, one record per request, judged by the
   specification.  Each record carries the request as the engine saw it (node table,
   selected operation, coerced variables), the class of the text, what ran, and the
   projected response.  Every record is an initial state; the invariant evaluates the
   acceptance predicate and prints a REJECT line naming the failing clause.           *)
EXTENDS Conform, SExec, Json, IOUtils, TLCExt

All == ndJsonDeserialize(IOEnv.TRACE_FILE)

VARIABLE i
Init == i \in 1..Len(All)
Next == UNCHANGED i
Spec == Init /\ [][Next]_i

PairsToFun(ps) == [x \in {ps[k][1] : k \in 1..Len(ps)} |-> (CHOOSE k \in 1..Len(ps) : ps[k][1] = x) ]
VarsOf(rec) == LET idx == PairsToFun(rec.vars) IN [x \in DOMAIN idx |-> rec.vars[idx[x]][2]]
CtxOf(rec) == [nodes |-> rec.nodes, op |-> rec.op, vars |-> VarsOf(rec), overlay |-> <<>>]

\* clauses, in order; the first failing one is reported
Clauses(rec) ==
  << <<"envelope", Envelope(rec.geom, rec.resp)>>,
     \* syntax errors, failed operation selection, refused variables: data null, nothing ran
     <<"refused-runs-nothing", (rec.cls \in {"broken", "opselect", "varcoerce", "invalid"}) =>
           (IsNull(rec.resp.data) /\ rec.resp.hasErrors /\ rec.ncalls = 0)>>,
     <<"errors-iff-nulls", (rec.cls = "exec" /\ ~rec.resp.hasErrors) => ~IsNull(rec.resp.data)>>,
     <<"conforms", (rec.cls = "exec") => Conforms(CtxOf(rec), rec.resp.data)>>,
     \* every null the response shows at a nullable position where the resolver data was not null is explained
     <<"coercer-once", rec.coercerCalls = (IF rec.resp.hasErrors THEN Len(rec.resp.errors) ELSE 0)>> >>

FirstBad(rec) == LET cs == Clauses(rec)
                     bad == {k \in 1..Len(cs) : ~cs[k][2]} IN
                 IF bad = {} THEN "" ELSE cs[CHOOSE k \in bad : \A m \in bad : k <= m][1]

Judge == LET b == FirstBad(All[i]) IN
         IF b = "" THEN PrintT(ToJson([kind |-> "verdict", tid |-> All[i].tid, ok |-> TRUE, clause |-> ""]))
         ELSE PrintT(ToJson([kind |-> "verdict", tid |-> All[i].tid, ok |-> FALSE, clause |-> b]))
=============================================================================
