SPECIFICATION Spec
CONSTANTS
  MaxSteps = 0
  BreakSteps = 0
  EmitModels = FALSE
INVARIANT R1_WellFormed
INVARIANT R1_Broken
INVARIANT R1_ImageExact
INVARIANT Emit
CHECK_DEADLOCK FALSE
