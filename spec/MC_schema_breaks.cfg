SPECIFICATION Spec
CONSTANTS
  MaxSteps = 1
  BreakSteps = 1
  EmitModels = FALSE
INVARIANT R1_WellFormed
INVARIANT R1_Broken
INVARIANT R1_ImageExact
INVARIANT Emit
CHECK_DEADLOCK FALSE
