SPECIFICATION SpecM
CONSTANTS
  Types <- TypesExec
  Roots <- RootsExec
  MaxSel = 3
  MaxDepth = 3
  MaxFrags = 0
  MaxOps = 2
  OpTypes = {"query"}
  FieldAlpha <- AlphaMultiO
  Aliases = {""}
  Conds = {""}
  DirOpts <- NoDirs
  ArgOpts <- ArgOptsNone
  VarTypes <- VarTypesStd
  VarVals <- VarValsStd
  MaxOverlay = 0
  TRSets <- NoTR
  FalsyOverlays = FALSE
  MaxFaults = 1
  SeqFields = {}
  LConc = TRUE
  NReq = 2
  OverlayKinds <- OKindsRaise
INVARIANT R1_Multi
INVARIANT EmitM
CHECK_DEADLOCK FALSE
