SPECIFICATION Spec
CONSTANTS
  MaxSteps = 2
  BreakSteps <- Never
  EmitModels = TRUE
INVARIANT R1_WellFormed
INVARIANT R1_Broken
INVARIANT R1_ImageExact
INVARIANT Emit
CHECK_DEADLOCK FALSE
