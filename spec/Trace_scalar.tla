----------------------------- MODULE Trace_scalar ----------------------------
(* R3 for C10: concrete values drawn around every boundary by the harness (not only the
   fixed representatives of the token table) are classified to tokens, sent through the
   engine, the outcome is classified back, and TLC judges each observation against
   Scalars.tla:  observed outcome token \in Out / In / LitC (scalar, input token).
   "SAMEVAL" is the classification of an outcome that is the same value in the aligned
   family of the expected token (checked by the harness numerically); the record carries
   the family token it landed in.                                                        *)
EXTENDS Scalars, Json, IOUtils, TLCExt

All == ndJsonDeserialize(IOEnv.TRACE_FILE)
VARIABLE i
Init == i \in 1..Len(All)
Spec == Init /\ [][UNCHANGED i]_i

AllowedFor(rec) ==
  IF rec.dir = "out" THEN Out(rec.s, rec.tin)
  ELSE IF rec.dir = "in" THEN In(rec.s, rec.tin)
  ELSE LitC(rec.s, [k |-> rec.k, t |-> rec.tin])
\* the outcome must be allowed, and when it is a value it must be the SAME value (sameval) - never truncated or wrapped
\* where the specification leaves the rendering open (ANYSTR) any text is an allowed outcome
Allowed(rec) == rec.tout \in AllowedFor(rec) \/ (ANYSTR \in AllowedFor(rec) /\ rec.isStr)
Accept(rec) == /\ Allowed(rec)
               /\ (rec.tout # FAIL => rec.sameval)
Judge == IF Accept(All[i]) THEN PrintT(ToJson([kind |-> "verdict", tid |-> All[i].tid, ok |-> TRUE, clause |-> ""]))
         ELSE PrintT(ToJson([kind |-> "verdict", tid |-> All[i].tid, ok |-> FALSE,
                             clause |-> IF ~Allowed(All[i]) THEN "outcome-not-allowed" ELSE "value-changed"]))
=============================================================================
