SPECIFICATION Spec
CONSTANTS
  MODE = "ways"
  TLO = 17
  THI = 32
INVARIANT R1_Ways
INVARIANT EmitWays
CHECK_DEADLOCK FALSE
