----------------------------- MODULE MC_registry -----------------------------
EXTENDS Registry, Json
EmitR == AllDone => PrintT(ToJson([kind |-> "history", n |-> N, steps |-> hist,
                                   answers |-> [sn \in Bundles |-> [k \in Kinds |-> Answers(sn)[k]]]]))
=============================================================================
