------------------------------- MODULE SExec2 -------------------------------
(* A second execution schema, structurally different from S_exec: custom root type names,
   an interface whose fields return the interface itself, nested lists of a leaf, a list of
   non-null abstract items at a non-null position, an enum-typed non-null field, arguments
   with an ID! and a defaulted enum, Float leaves.                                        *)
EXTENDS Naturals, Sequences

Nm2(n) == <<n>>
Nn2(t) == <<"NN">> \o t
Li2(t) == <<"L">> \o t
Ag2(n, t)     == [name |-> n, type |-> t, hasDefault |-> FALSE, default |-> [t |-> "null", v |-> 0]]
AgD2(n, t, d) == [name |-> n, type |-> t, hasDefault |-> TRUE, default |-> d]
Rs2(t)        == [type |-> t, args |-> <<>>, res |-> "R"]
Df2(t)        == [type |-> t, args |-> <<>>, res |-> "D"]
RsA2(t, as)   == [type |-> t, args |-> as, res |-> "R"]
NoFields2 == [x \in {} |-> 0]
Leafish2(k) == [kind |-> k, fields |-> NoFields2, possible |-> {}, possibleSeq |-> <<>>, values |-> <<>>, way |-> ""]
FindArgs == << Ag2("id", Nn2(Nm2("ID"))), AgD2("kind", Nm2("Kind"), [t |-> "enum", v |-> "K1"]) >>
BumpArgs == << AgD2("by", Nm2("Int"), [t |-> "int", v |-> 1]) >>
NodeFields == [ id |-> Rs2(Nn2(Nm2("ID"))), next |-> Rs2(Nm2("Node")) ]

TypesExec2 == [
  RootQ |-> [kind |-> "OBJECT", possible |-> {"RootQ"}, possibleSeq |-> <<"RootQ">>, values |-> <<>>, way |-> "key",
    fields |-> [ node |-> Rs2(Nm2("Node")), nodes |-> Rs2(Nn2(Li2(Nn2(Nm2("Node"))))), find |-> RsA2(Nm2("Thing"), FindArgs),
                 grid |-> Rs2(Li2(Li2(Nm2("Leaf")))), n |-> Rs2(Nm2("Int")), k |-> Rs2(Nn2(Nm2("Kind"))) ]],
  Node |-> [kind |-> "INTERFACE", possible |-> {"Leaf", "Branch"}, possibleSeq |-> <<"Leaf", "Branch">>, values |-> <<>>, way |-> "", fields |-> NodeFields],
  Leaf |-> [kind |-> "OBJECT", possible |-> {"Leaf"}, possibleSeq |-> <<"Leaf">>, values |-> <<>>, way |-> "attr",
    fields |-> [ id |-> Rs2(Nn2(Nm2("ID"))), next |-> Rs2(Nm2("Node")), v |-> Rs2(Nm2("Float")), tags |-> Rs2(Li2(Nn2(Nm2("String")))), d |-> Df2(Nm2("String")) ]],
  Branch |-> [kind |-> "OBJECT", possible |-> {"Branch"}, possibleSeq |-> <<"Branch">>, values |-> <<>>, way |-> "class",
    fields |-> [ id |-> Rs2(Nn2(Nm2("ID"))), next |-> Rs2(Nm2("Node")), kids |-> Rs2(Li2(Nm2("Node"))), kind |-> Rs2(Nn2(Nm2("Kind"))) ]],
  Thing |-> [kind |-> "UNION", possible |-> {"Leaf", "Branch"}, possibleSeq |-> <<"Branch", "Leaf">>, values |-> <<>>, way |-> "", fields |-> NoFields2],
  Kind |-> [kind |-> "ENUM", possible |-> {}, possibleSeq |-> <<>>, values |-> <<"K1", "K2">>, way |-> "", fields |-> NoFields2],
  RootM |-> [kind |-> "OBJECT", possible |-> {"RootM"}, possibleSeq |-> <<"RootM">>, values |-> <<>>, way |-> "key",
    fields |-> [ bump |-> RsA2(Nn2(Nm2("Int")), BumpArgs), leaf |-> Rs2(Nm2("Leaf")) ]],
  String |-> Leafish2("SCALAR"), Int |-> Leafish2("SCALAR"), Boolean |-> Leafish2("SCALAR"), ID |-> Leafish2("SCALAR"), Float |-> Leafish2("SCALAR") ]
RootsExec2 == [query |-> "RootQ", mutation |-> "RootM", subscription |-> ""]
=============================================================================
