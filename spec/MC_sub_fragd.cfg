SPECIFICATION SpecSub
CONSTANTS
  Types <- TypesExec
  Roots <- RootsExec
  MaxSel = 4
  MaxDepth = 3
  MaxFrags = 1
  MaxOps = 1
  OpTypes = {"subscription"}
  FieldAlpha <- AlphaSub3
  Aliases = {""}
  Conds = {"T"}
  DirOpts <- DirsSkipT
  ArgOpts <- ArgOptsSub3
  VarTypes <- VarTypesStd
  VarVals <- VarValsSmall
  MaxOverlay = 0
  TRSets <- NoTR
  FalsyOverlays = FALSE
  MaxFaults = 1
  MaxEvents = 1
  EventKinds <- EvKinds2
  AllowRefused = FALSE
INVARIANT R1_Sub
INVARIANT EmitSub
PROPERTY SubProgress
CHECK_DEADLOCK FALSE
