------------------------------- MODULE MC_sub --------------------------------
(* R1 + R2 configuration for C14: subscription documents from the generator, a finite
   event sequence (each event with its own resolver data: fine, failing, null), and
   every interleaving of event production and consumer pulls.                        *)
EXTENDS MC_faults, Subscription

CONSTANTS MaxEvents, EventKinds, AllowRefused

VARIABLES events,     \* Seq of overlays, one per event
          ahist       \* Seq of actions "produce" | "pull" | "end"
subv == <<nodes, phase, pick, events, ahist, produced, pulled, ended>>

InitSub == Init /\ events = <<>> /\ ahist = <<>> /\ SubInit
BuildSub == (AddOp \/ AddFrag \/ AddField \/ AddInline \/ AddSpread \/ Finish) /\ UNCHANGED <<events, ahist, produced, pulled, ended>>

\* refused = "" (accepted) | "varcoerce" (a required variable is missing) | "validation" (the harness adds an unknown field)
PickSub ==
  /\ phase = "pick"
  /\ \E op \in OpIds :
       \/ \E g \in Assignments(nodes, op) :
            /\ GoodAssignment(nodes, op, g)
            /\ pick' = [op |-> op, given |-> g, overlay |-> <<>>, refused |-> ""]
       \/ /\ AllowRefused
          /\ \E x \in VarsUsedBy(nodes, op) : IsNN(VarTypes[x].type) /\ ~VarTypes[x].hasDefault
          /\ pick' = [op |-> op, given |-> <<>>, overlay |-> <<>>, refused |-> "varcoerce"]
       \/ /\ AllowRefused
          /\ VarsUsedBy(nodes, op) = {}
          /\ pick' = [op |-> op, given |-> <<>>, overlay |-> <<>>, refused |-> "validation"]
  /\ phase' = "events" /\ UNCHANGED <<nodes, events, ahist, produced, pulled, ended>>

Refused == pick.refused # ""
C0 == BaseC(pick.op, CoercedVars(nodes, pick.op, pick.given))
AddEvent ==
  /\ phase = "events" /\ Len(events) < MaxEvents /\ ~Refused
  /\ \/ events' = Append(events, <<>>)
     \/ \E p \in BigStep(C0).pos : \E o \in (FaultsAt(p) \cup BenignAt(p)) \cap EventKinds :
          events' = Append(events, (p.path :> o))
  /\ UNCHANGED <<nodes, phase, pick, ahist, produced, pulled, ended>>
Start == phase = "events" /\ phase' = "done" /\ UNCHANGED <<nodes, pick, events, ahist, produced, pulled, ended>>

Run ==
  /\ phase = "done"
  /\ \/ Produce(Len(events)) /\ ahist' = Append(ahist, "produce")
     \/ EndSource(Len(events)) /\ ahist' = Append(ahist, "end")
     \/ Pull(Refused) /\ ahist' = Append(ahist, "pull")
  /\ UNCHANGED <<nodes, phase, pick, events>>
NextSub == BuildSub \/ PickSub \/ AddEvent \/ Start \/ Run
SpecSub == InitSub /\ [][NextSub]_subv

EvId(k) == "E" \o ToString(k)
RespOf(k) == BigStepR([C0 EXCEPT !.overlay = events[k]], EvId(k))
Out == [k \in 1..Delivered(Refused) |-> IF Refused THEN [cls |-> pick.refused] ELSE
          LET b == RespOf(k) IN [cls |-> "exec", data |-> b.data, errs |-> b.errs, nulls |-> b.nulls, calls |-> b.calls]]

\* R1: one response per event, in order (a prefix of the per-event responses), all of
\* them once the stream has finished; a failing event never stops the stream
R1_Sub == phase = "done" =>
  /\ Delivered(Refused) <= (IF Refused THEN 1 ELSE Len(events))
  /\ (Finished(Refused) /\ ~Refused => Delivered(Refused) = Len(events))
  /\ (Refused => produced = 0)
  /\ (~Finished(Refused) /\ ~Refused /\ pulled > produced => ~ended)
SubProgress == [][phase = "done" /\ phase' = "done" => Delivered(Refused)' >= Delivered(Refused)]_subv

Terminal == phase = "done" /\ Finished(Refused)
EmitSub == Terminal =>
  PrintT(ToJson([kind |-> "sub", nodes |-> nodes, op |-> pick.op, given |-> PairsOf(pick.given), refused |-> pick.refused,
                 events |-> [k \in 1..Len(events) |-> PairsOf(events[k])], actions |-> ahist, out |-> Out]))
=============================================================================
