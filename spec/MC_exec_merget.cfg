SPECIFICATION Spec
CONSTANTS
  Types <- TypesExec
  Roots <- RootsExec
  MaxSel = 7
  MaxDepth = 4
  MaxFrags = 0
  MaxOps = 1
  OpTypes = {"query"}
  FieldAlpha <- AlphaMergeT
  Aliases = {""}
  Conds = {"A"}
  DirOpts <- NoDirs
  ArgOpts <- ArgOptsNone
  VarTypes <- VarTypesStd
  VarVals <- VarValsStd
  MaxOverlay = 0
  TRSets <- NoTR
  FalsyOverlays = FALSE
INVARIANT R1_Exec
INVARIANT Emit
CHECK_DEADLOCK FALSE
