------------------------------ MODULE MC_faults ------------------------------
(* R1 + R2 configuration for C02 (failure containment): the document generator of
   MC_exec, then every single fault point (and every pair) of the fault-free response
   tree with every failure kind applicable there.                                  *)
EXTENDS MC_exec

CONSTANTS MaxFaults

IsItemPath(p) == p # <<>> /\ p[Len(p)] \in {Idx(0), Idx(1), Idx(2), Idx(3)}

FaultsAt(p) ==
  LET t == p.type
      core == IF IsNN(t) THEN Tail(t) ELSE t IN
  \* default-resolved field of an attribute-based object: the only failure is the attribute raising KeyError when read
  IF "dres" \in DOMAIN p THEN {[o |-> "dboom"]} ELSE
  {[o |-> "exc"]}
  \cup (IF ~IsItemPath(p.path) THEN {[o |-> "raise"], [o |-> "raiseLib"]} ELSE {})
  \cup (IF IsNN(t) THEN {[o |-> "null"]} ELSE {})
  \cup (IF IsList(core) THEN {[o |-> "nonlist"]} ELSE {})
  \cup (IF ~IsList(core) /\ IsLeaf(Named(core)) THEN {[o |-> "bad"]} ELSE {})
  \* a value the scalar's own output coercion turns into null, at a non-null position
  \cup (IF IsNN(t) /\ ~IsList(core) /\ Named(core) = "Cs" THEN {[o |-> "blank"]} ELSE {})
  \cup (IF ~IsList(core) /\ IsAbstract(Named(core))
        THEN {[o |-> "rt", tn |-> "Nope"], [o |-> "rt", tn |-> "T"]}
             \* object types that are possible for ANOTHER abstract type only
             \cup {[o |-> "rt", tn |-> x] : x \in (UNION {Possible(a) : a \in {y \in DOMAIN Types : IsAbstract(y)}}) \ Possible(Named(core))}
        ELSE {})

Singles(ps) == {<<p.path, o>> : p \in ps, o \in UNION {FaultsAt(q) : q \in ps}}
GoodSingle(ps, s) == \E p \in ps : p.path = s[1] /\ s[2] \in FaultsAt(p)

PickF ==
  /\ phase = "pick"
  /\ \E op \in OpIds :
       \E g \in Assignments(nodes, op) :
         /\ GoodAssignment(nodes, op, g)
         /\ LET C0 == BaseC(op, CoercedVars(nodes, op, g))
                ps == BigStep(C0).pos IN
            \E p1 \in ps : \E o1 \in FaultsAt(p1) :
              \/ pick' = [op |-> op, given |-> g, overlay |-> (p1.path :> o1)]
              \/ /\ MaxFaults >= 2
                 /\ \E p2 \in ps : \E o2 \in FaultsAt(p2) :
                      /\ p1.path # p2.path
                      /\ pick' = [op |-> op, given |-> g, overlay |-> (p1.path :> o1) @@ (p2.path :> o2)]
  /\ phase' = "done" /\ UNCHANGED nodes

NextF == AddOp \/ AddFrag \/ AddField \/ AddInline \/ AddSpread \/ Finish \/ PickF
SpecF == Init /\ [][NextF]_gvars

FreeCtx == [Ctx EXCEPT !.overlay = <<>>]

\* replace the value at `path` by Null
RECURSIVE NullAt(_, _)
NullAt(v, path) ==
  IF path = <<>> THEN Null
  ELSE IF v.t = "O" THEN Obj([i \in 1..Len(v.v) |-> IF v.v[i][1] = path[1] THEN <<v.v[i][1], NullAt(v.v[i][2], Tail(path))>> ELSE v.v[i]])
  ELSE IF v.t = "L" THEN Lst([i \in 1..Len(v.v) |-> IF Idx(i - 1) = path[1] THEN NullAt(v.v[i], Tail(path)) ELSE v.v[i]])
  ELSE v
RECURSIVE Graft(_, _)
Graft(v, paths) == IF paths = {} THEN v ELSE LET p == CHOOSE x \in paths : TRUE IN Graft(NullAt(v, p), paths \ {p})

Prefixes(p) == {SubSeq(p, 1, k) : k \in 0..Len(p)}
TypeAt(ps, p) == (CHOOSE q \in ps : q.path = p).type
NullablePos(ps, p) == p = <<>> \/ (\E q \in ps : q.path = p /\ ~IsNN(q.type))
\* longest prefix of the fault path that is a nullable position (root counts as nullable)
NearestNullable(ps, f) ==
  CHOOSE p \in Prefixes(f) : NullablePos(ps, p) /\ \A q \in Prefixes(f) : NullablePos(ps, q) => Len(q) <= Len(p)
Outermost(S) == {p \in S : ~\E q \in S : q # p /\ IsPrefixPath(q, p)}

R1_Faults == phase = "done" =>
  LET b    == BigStep(Ctx)
      free == BigStep(FreeCtx)
      nulled == {n.at : n \in b.nulls}
      faults == DOMAIN Ctx.overlay \cup {e.path : e \in free.errs}   \* overlay faults + argument coercion failures
      epaths == {e.path : e \in b.errs} IN
  \* exactly the nearest nullable enclosing positions become null ...
  /\ Outermost(nulled) = Outermost({NearestNullable(free.pos, f) : f \in faults})
  /\ nulled \subseteq {NearestNullable(free.pos, f) : f \in faults}
  \* ... and everything else is what it would be without the failure
  /\ VEq(b.data, Graft(free.data, Outermost(nulled)))
  \* every nulled position is explained by a failure below it; no spurious error
  /\ \A n \in b.nulls : n.why # {} /\ \A w \in n.why : IsPrefixPath(n.at, w) /\ w \in epaths
  /\ epaths \subseteq faults
  /\ \A e \in b.errs : e.nodes # <<>>
  /\ CallsUnique(b.calls)

EmitF == phase = "done" =>
  LET b == BigStep(Ctx) IN
  PrintT(ToJson([kind |-> "case", nodes |-> nodes, op |-> pick.op,
                 given |-> PairsOf(pick.given), overlay |-> PairsOf(pick.overlay),
                 cvars |-> PairsOf(Ctx.vars), data |-> b.data, errs |-> b.errs, nulls |-> b.nulls, calls |-> b.calls]))
=============================================================================
