------------------------------ MODULE MC_valid -------------------------------
(* R1 + R2 configuration for C06 / C07: valid seed documents from the generator (kept as
   they are: C06) and every violation-injecting rewrite of each (C07).               *)
EXTENDS Validation, SExec, Json

Lit(t, v) == [t |-> t, v |-> v]
ArgV(n, l) == [name |-> n, val |-> l]
AllTypeNames == DOMAIN TypesExec
AlphaOf(f) == [tn \in AllTypeNames |-> IF tn \in DOMAIN f THEN f[tn] ELSE {}]
AlphaV1 == AlphaOf([Query |-> {"o", "s", "g", "h"}, T |-> {"s", "o"}])
AlphaV2 == AlphaOf([Query |-> {"o", "p"}, T |-> {"s", "f"}, P |-> {"s"}, A |-> {"a"}])
AlphaV3 == AlphaOf([Subscription |-> {"ev", "evs"}, Mutation |-> {"m1", "m3"}, Query |-> {"s"}, T |-> {"s"}])
ArgOptsV == [ f |-> {<<>>, <<ArgV("a", Lit("var", "n"))>>}, g |-> {<<ArgV("r", Lit("int", 2))>>, <<ArgV("r", Lit("var", "m"))>>},
              h |-> {<<ArgV("i", [t |-> "obj", v |-> << <<"r", Lit("int", 1)>> >>])>>,
                     \* an explicit null for a nullable list of non-null items
                     <<ArgV("i", [t |-> "obj", v |-> << <<"r", Lit("int", 1)>>, <<"ln", Lit("null", 0)>> >>])>>,
                     <<ArgV("i", [t |-> "obj", v |-> << <<"r", Lit("int", 1)>>, <<"l", [t |-> "list", v |-> <<Lit("int", 1), Lit("null", 0)>>]>>, <<"n", [t |-> "obj", v |-> << <<"r", Lit("var", "m")>> >>]>> >>])>>},
              ev |-> {<<>>} ]
Dir(n, l) == [name |-> n, val |-> l]
DirsV == {<<>>, <<Dir("skip", Lit("var", "v"))>>, <<Dir("include", Lit("bool", TRUE))>>}
NoDirs == {<<>>}
VarTypesV == [ v |-> [type |-> <<"NN", "Boolean">>, hasDefault |-> FALSE, default |-> NoLit],
               n |-> [type |-> <<"Int">>, hasDefault |-> FALSE, default |-> NoLit],
               m |-> [type |-> <<"NN", "Int">>, hasDefault |-> FALSE, default |-> NoLit] ]
VarValsV == [ v |-> {}, n |-> {}, m |-> {} ]

InitV == Init
Keep == phase = "pick" /\ pick' = [rule |-> "", site |-> "", nodes |-> nodes] /\ phase' = "done" /\ UNCHANGED nodes
Break == phase = "pick" /\ (\E rw \in Rewrites(nodes) : pick' = rw) /\ phase' = "done" /\ UNCHANGED nodes
NextV == AddOp \/ AddFrag \/ AddField \/ AddInline \/ AddSpread \/ Finish \/ Keep \/ Break
SpecV == InitV /\ [][NextV]_gvars

\* R1: the generator stays inside the language of valid documents; every rewrite leaves it
R1_SeedsValid == phase = "pick" => ValidAll(nodes)
R1_RewritesInvalid == (phase = "done" /\ pick.rule # "") => ~Holds(pick.rule, pick.nodes)

ASSUME PrintT(ToJson([kind |-> "schema", types |-> TypesExec, roots |-> RootsExec]))
EmitV == phase = "done" => PrintT(ToJson([kind |-> "vcase", rule |-> pick.rule, site |-> pick.site, nodes |-> pick.nodes,
                                          violated |-> IF pick.rule = "" THEN {} ELSE ViolatedRules(pick.nodes)]))
=============================================================================
