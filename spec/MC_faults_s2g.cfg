SPECIFICATION SpecF
CONSTANTS
  Types <- TypesExec2
  Roots <- RootsExec2
  MaxSel = 2
  MaxDepth = 3
  MaxFrags = 0
  MaxOps = 1
  OpTypes = {"query"}
  FieldAlpha <- AlphaS2G
  Aliases = {""}
  Conds = {""}
  DirOpts <- NoDirs
  ArgOpts <- ArgOptsS2
  VarTypes <- VarTypesS2
  VarVals <- VarValsS2
  MaxOverlay = 0
  TRSets <- NoTR
  FalsyOverlays = FALSE
  MaxFaults = 2
INVARIANT R1_Faults
INVARIANT EmitF
CHECK_DEADLOCK FALSE
