SPECIFICATION SpecF
CONSTANTS
  Types <- TypesExec2
  Roots <- RootsExec2
  MaxSel = 3
  MaxDepth = 3
  MaxFrags = 0
  MaxOps = 1
  OpTypes = {"query"}
  FieldAlpha <- AlphaS2
  Aliases = {""}
  Conds = {"", "Leaf"}
  DirOpts <- NoDirs
  ArgOpts <- ArgOptsS2
  VarTypes <- VarTypesS2
  VarVals <- VarValsS2
  MaxOverlay = 0
  TRSets <- NoTR
  FalsyOverlays = FALSE
  MaxFaults = 1
INVARIANT R1_Faults
INVARIANT EmitF
CHECK_DEADLOCK FALSE
