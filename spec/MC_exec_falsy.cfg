SPECIFICATION Spec
CONSTANTS
  Types <- TypesExec
  Roots <- RootsExec
  MaxSel = 3
  MaxDepth = 3
  MaxFrags = 0
  MaxOps = 1
  OpTypes = {"query"}
  FieldAlpha <- AlphaFalsy
  Aliases = {"", "z"}
  Conds = {"", "B"}
  DirOpts <- NoDirs
  ArgOpts <- ArgOptsNone
  VarTypes <- VarTypesStd
  VarVals <- VarValsStd
  MaxOverlay = 1
  TRSets <- NoTR
  FalsyOverlays = TRUE
INVARIANT R1_Exec
INVARIANT Emit
CHECK_DEADLOCK FALSE
