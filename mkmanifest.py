#!/usr/bin/env python3
"""Writes MANIFEST.json from one table (kept in this file)."""
import json, os
HERE = os.path.dirname(os.path.abspath(__file__))
TB = ("trusted base: TLC 1.8.0; the stand-in executable-document parser harness/gqlstub.py (libgraphqlparser.so is absent from the "
      "sandbox; validated against upstream's own functional suite by ./check selftest); the renderers/projection in harness/render.py")

CHECKS = {
 "C01": dict(cat="model_checking", ref="§5/C01",
   text="TLC explores exhaustively every valid document (<= MaxSel selection nodes per feature-group config) x operation x variables x benign data overlay over the covering schema S_exec, checks the spec invariants R1_Exec, and prints the big-step prediction (data, resolver calls with parent/args); every printed case is executed by the real engine and compared (data incl. key order, calls exactly once, parent, args, context).",
   technique="TLA+ big-step spec (GQL.tla) + TLC exhaustive generation (MC_exec) + replay of every TLC behaviour into the engine"),
 "C02": dict(cat="fault_enumeration", ref="§5/C02",
   text="Every single fault point (field and list-item positions) of the fault-free response tree of every generated request x every applicable failure kind (raise, library error, exception as value, null at non-null, unserialisable leaf, non-list, unknown / foreign runtime type, run-time argument coercion failure), then all pairs, enumerated by TLC; TLC checks R1_Faults (nulled = outermost nearest-nullable positions, non-interference, every nulled position explained, no spurious error) and the engine is run on every case under 4 concurrency configurations: data exactly, error paths/locations/messages/extensions, explained nulls.",
   technique="TLA+ big-step spec with propagating failures (GQL.tla, MC_faults.tla) + TLC exhaustive single/pair fault enumeration + replay into the engine"),
 "C08": dict(cat="model_checking", ref="§5/C08",
   text="Sched.tla models the engine's control flow between idle points (inline-awaited vs gathered siblings, sequential vs concurrent lists, abort on non-null failure); TLC explores every order of releasing the pending resolvers of every generated request (with and without faults) under 6 flag sets and checks deadlock freedom, monotonicity, confluence with the big-step semantics and termination (liveness under fairness); every complete schedule is then driven through the real engine under a hand-driven event loop: response, explained nulls, no resolver started twice, nothing pending or alive at return, termination. Pending-set agreement with the model is recorded (coverage), not part of the verdict.",
   technique="TLA+ scheduler model (Sched.tla) checked by TLC (invariants + liveness) + replay of every TLC schedule through the engine on a controlled asyncio loop"),
 "C09": dict(cat="model_checking", ref="§5/C09",
   text="Same scheduler model restricted to mutation operations: R1_Serial (a root has started resolvers only when all earlier roots are complete) checked by TLC over all schedules x failure placements x 6 flag sets; every schedule replayed: at every idle point at most one root has resolvers in flight, roots are entered in document order, nullable root failure does not stop later roots, non-null root failure nulls data, response keys in document order.",
   technique="TLA+ scheduler model (Sched.tla, serial executor) + TLC + schedule replay on a controlled asyncio loop"),
 "C15": dict(cat="model_checking", ref="§5/C15",
   text="MC_multi.tla: 2-3 requests over one generated document (different operations, variables, resolver data incl. failures) in flight on one engine; TLC explores every interleaving of all their resolver completions and checks each answer equals the solo big-step answer (R1_Multi); every interleaving is driven through ONE real engine with all requests suspended on harness gates; each response, context identity per call, and the same requests re-run alone afterwards are compared with the prediction. R3: groups of 2-4 requests over DIFFERENT documents (drawn by TLC in simulation mode, with failures, fragments reusing names, widening fragments), started at different moments and interleaved at random, are recorded from the engine (every start / release with the pending sets of all requests) and validated by TLC against a product of independent scheduler specifications (Trace_multi.tla: a step of one request leaves the others untouched, every answer is that request's own big-step answer).",
   technique="TLA+ multi-request scheduler model + TLC exhaustive interleavings replayed on a controlled asyncio loop + TLC trace validation of recorded multi-request executions (Trace_multi.tla)"),
 "C16": dict(cat="model_checking", ref="§5/C16",
   text="Engine.tla models the parse/validate cache as explicit LRU state; TLC checks coherence (cache[q] = PV(q)), boundedness and transparency (resp = Solo(req)) over every request sequence of length 4 over a pool of 7 (thorough: 12) requests (valid/invalid/broken documents, same text with other operation name or variables, str/bytes) for capacities 0, 1, 2, unbounded; every sequence is sent to real engines configured with cache off / lru_cache(1) / lru_cache(2) / default / a custom decorator, each response compared with the spec's prediction and with a fresh uncached engine; hit/eviction predictions are compared as coverage only.",
   technique="TLA+ cache/history model (Engine.tla) + TLC exhaustive request sequences + replay into engines with each cache configuration"),
 "C14": dict(cat="model_checking", ref="§5/C14",
   text="Subscription.tla models the pulled stream (produced / pulled / ended, delivered = min(pulled, produced)); TLC explores subscription documents x variables x event sequences (<= 3 events, each with its own resolver data: fine / raising / null / exception value) x every interleaving of event production, consumer pulls and source end, plus requests refused by validation or variable coercion; invariants R1_Sub and action property SubProgress; every terminal behaviour is driven through engine.subscribe() pull by pull: delivered count after each action, each response vs the big-step prediction with the payload as root value, stream end, source started exactly once / never when refused.",
   technique="TLA+ stream model (Subscription.tla) + TLC + replay through engine.subscribe() on a controlled asyncio loop"),
 "C03": dict(cat="model_checking", ref="§5/C03",
   text="Conform.tla defines conformance of a response to selection and schema (exact collected keys in order, lists, non-null, leaf kinds, enum membership, possible types) and is evaluated BY TLC on recorded executions: (a) every leaf/list/abstract-typed field of the covering schema x every value-token representative (alone and inside lists), (b) documents drawn by TLC in simulation mode executed with seeded adversarial resolver outputs (wrong Python types, nested garbage, boundary numbers, exception instances, raising resolvers, unknown runtime types). Each record is one trace; TLC also checks the envelope, JSON-serialisability, 'no errors => data not null' and the error-coercer count.",
   technique="TLA+ conformance predicate (Conform.tla) evaluated by TLC on traces recorded from the engine (Trace_resp), documents generated by TLC -simulate"),
 "C10": dict(cat="model_checking", ref="§5/C10",
   text="Scalars.tla gives, for Int/Float/String/Boolean/ID and the three directions (result, variable input, literal), the set of allowed outcomes over a universe of 49 value tokens (boundary classes around 0, +-1, +-2^31, +-2^53, huge, integral/fractional/denormal/non-finite floats, numeric/blank/unicode strings, bools, containers); TLC checks the laws (wire type, forbidden/required input kinds, literal = variable, idempotence, totality) over the whole universe and prints the 630 cells; every cell x every concrete representative is executed through the engine (echo fields) and on the scalar objects of the built schema; the observed outcome must be in the allowed set; input cells are repeated at every position a scalar value can sit in (single value for a list, list item, inside list / object literals, object field); random boundary values are classified to tokens and their outcomes judged by TLC (Trace_scalar.tla).",
   technique="TLA+ decision tables with TLC-checked laws (Scalars.tla) + replay of every cell through the engine"),
 "C18": dict(cat="model_checking", ref="§5/C18",
   text="Engine.tla classifies every request (syntax / validation / operation selection / variables / executed) and TLC checks that error classes answer data null and run nothing; the whole operation-selection x variables matrix is replayed under 4 error coercers x 3 contexts (coercer awaited once per error, its return value is the entry). Main part: mutated and random texts (str/bytes, invalid UTF-8, BOM, control characters, deep nesting, block strings) seeded from TLC-generated documents; each response is one trace judged by TLC (Envelope: dict with data, errors only when non-empty, string messages, path list-or-null, locations positive and inside the text, extensions only when set, JSON-serialisable; refused texts run nothing).",
   technique="TLA+ envelope invariant evaluated by TLC on traces recorded from the engine + TLC-enumerated request matrix replay"),
 "C04": dict(cat="model_checking", ref="§5/C04",
   text="InputCoercion.tla transcribes CoerceVariableValues and input coercion (lists with single-value wrapping at every level, input objects with defaults / required / unknown fields, recursive input objects, enums, scalar leaves through Scalars.tla). TLC checks R1_Vars over 24k cells (66 declared types x default? x absent / candidate JSON values one mutation away from well-typed at every position): undeclared variables ignored, absent+default = default, explicit null kept, refusal iff a rule fails, type soundness, wrapping; plus a two-variable configuration (no masking). Every cell x 2 representatives is executed: refusal => data null, no resolver call, an error located in the offending variable's definition; otherwise the echo resolver sees exactly the predicted dictionary; every candidate value is also used as the DEFAULT of a variable that is not provided (an invalid used default refuses the request).",
   technique="TLA+ input coercion spec (InputCoercion.tla) + TLC type-directed cell enumeration + replay through echo resolvers"),
 "C05": dict(cat="model_checking", ref="§5/C05",
   text="Same specification, CoerceArgumentValues and literal coercion (valueFromAST incl. variables inside list/object literals). TLC checks R1_Ways for every (type, value): literal, variable, variable default, schema default, variable-in-list and variable-in-object spellings yield the same argument dictionary (or all fail), delivered values are well-typed. Every cell is executed in all applicable spellings at field AND directive argument positions, plus omitted / null literal / null variable / absent variable per type, plus ill-typed variables nested in literals (never delivered), schema defaults used repeatedly (resolvers modify what they receive), a second directive beside the one carrying the value, and subscription source / event resolver.",
   technique="TLA+ argument/literal coercion spec + TLC-checked equivalence of spellings + replay of every spelling through echo resolvers and directive hooks"),
 "C06": dict(cat="model_checking", ref="§5/C06",
   text="Validation.tla has one predicate per supported rule (26); TLC checks R1_SeedsValid: every document the generator emits satisfies all of them (so the generator is inside the language of valid documents). The seeds (two layouts, definitions in both orders) and the fragment/operation/directive/variable-heavy generator configurations (fragment DAGs with sharing and repeated spreads, fragments defined after use, variables flowing through fragments, several named operations, meta-fields) are executed: no error may carry a validation-rule tag; a refusal is reported against the rule that fired.",
   technique="TLA+ validation predicates (Validation.tla) TLC-checked on every generated document + replay of the valid documents into the engine"),
 "C07": dict(cat="model_checking", ref="§5/C07",
   text="Validation.tla also contains a catalogue of ~50 violation-injecting rewrites covering all 26 supported rules at every applicable site (operation root, second operation, nested selection, inside named / inline fragments, fragment definitions, directive arguments, nested input values, variable definitions). TLC applies every rewrite at every applicable node of every valid seed and checks R1_RewritesInvalid (the targeted rule predicate is false on the rewritten document). Every rewritten document (~80k) is sent to the engine: data null, non-empty errors, zero resolver / source-stream calls. Which rule reports is logged, not compared.",
   technique="TLA+ rule predicates + rewrite catalogue (Validation.tla), TLC exhaustive (seed x rule x site), replay into the engine"),
 "C11": dict(cat="model_checking", ref="§5/C11",
   text="SchemaModel.tla represents an SDL as the pieces a user writes (definitions, `extend` pieces of every kind, directive definitions, schema block), Normalise merges extensions, Image is what introspection must report. TLC generates the base model (every type kind, wrappers to depth 3, defaults of every value kind incl. strings needing escapes, interfaces with several implementers, union, custom directive, deprecations with and without reason, @nonIntrospectable fields) plus 0..2 variations (moving members into `extend` pieces, added fields/values/input fields/directives/roots) and checks R1_WellFormed / R1_ImageExact. Every model is rendered to SDL and supplied as string / file / list of files / directory; the full introspection query, __type(name:) for every type and an unknown name, __typename, includeDeprecated absent/true/false are projected and compared with Image(model).",
   technique="TLA+ schema model + expected introspection image (SchemaModel.tla), TLC-generated models, round trip through SDL parsing, schema building and introspection"),
 "C12": dict(cat="model_checking", ref="§5/C12",
   text="SchemaModel.tla's WellFormed is the conjunction of the checked schema rules (one predicate each); Breaks is a catalogue of ~75 violations (rule x site: base definition / `extend` piece / behind wrappers / interface vs object / field vs argument vs input field vs directive argument / default vs custom root names / duplicates / missing implementations / syntax errors). TLC applies every break to the base model and to each 1-step variation and checks R1_Broken (the targeted predicate is false). create_engine must raise for each of the ~3000 broken models (through all four supply routes in rotation).",
   technique="TLA+ schema rule predicates + break catalogue (SchemaModel.tla), TLC exhaustive (model x rule x site), cook of every broken model"),
 "C13": dict(cat="model_checking", ref="§5/C13",
   text="Directives.tla predicts, for a tagging directive whose every hook leaves a mark on the string it passes on, the exact string a resolver receives and the exact string in data, from the documented composition order (input value -> type-level input hooks -> input-field -> input-object -> argument -> field hooks (query-side wrapping schema-side) -> resolver -> output type hooks -> serialisation, first declared outermost) and the set of hook invocations (each instance exactly once). TLC checks that literal, variable and nested-variable spellings run the same hooks and the instance counts, over every configuration of 0..2 instances at 9 locations with <= 2 (thorough 3) instances overall plus the all-2 configuration; a schema is cooked per configuration and 8 request kinds are executed and compared (strings and hook log).",
   technique="TLA+ hook-chain model with order-revealing marks (Directives.tla) + TLC enumeration of configurations + replay through real directive classes"),
 "C17": dict(cat="model_checking", ref="§5/C17",
   text="Registry.tla models the process-wide registry keyed by schema name and the rule that a cooked engine depends on registry[its name] only; TLC enumerates every interleaving of the registration and cook steps of 2 and 3 bundles (20 + 1680 histories) and checks Independent / NoLeak. Every history is executed in one Python process with bundles that share ALL type, field, scalar, directive and subscription names but tag every value with their identity (resolver, type resolver, scalar, directive, subscription source); each engine's probe answers must name its own bundle. A sample of histories is re-run in fresh processes with bundle 1 on the implicit \"default\" schema name.",
   technique="TLA+ registry model (Registry.tla) + TLC exhaustive interleavings of registration/cook steps + replay in-process and in fresh processes"),
}
NOT_YET = {}

def main():
    props = [json.loads(l) for l in open(os.path.join(HERE, "properties.jsonl"))]
    checks = []
    na = []
    for p in props:
        pid = p["id"]
        c = CHECKS.get(pid)
        if c is None:
            na.append({"property_id": pid, "reason": NOT_YET.get(pid, "check not built yet in this session (see DESIGN.md §10 build order); nothing is claimed for it")})
            continue
        checks.append({
            "property_id": pid,
            "quick_cmd": "./check %s --tier quick" % pid,
            "thorough_cmd": "./check %s --tier thorough" % pid,
            "evidence_file": "evidence/%s.json" % pid,
            "replay_cmd_template": "./check %s --replay {path}" % pid,
            "level_claimed": {"category": c["cat"], "text": c["text"], "design_ref": c["ref"]},
            "level_note": c.get("note", TB),
            "technique": c["technique"],
        })
    m = {"version": 1,
         "setup_cmd": "./check setup",
         "hooks": {"guard": "TARTIFLETTE_VERIF", "enable": "no source hooks: everything is observed through user-supplied callables (resolvers, scalars, directives, event loop); the guard variable is unused by /repo",
                   "baseline_off_cmd": "cd /repo && /venv/bin/python -m pytest -ra -q -p no:cacheprovider --timeout=900 --continue-on-collection-errors",
                   "source_commits": [], "add_only": True},
         "engines": [{"name": "tlc", "path": "spec/", "serves_properties": [c["property_id"] for c in checks],
                      "kind_free_text": "explicit TLA+ specification checked with TLC; bound to the code by replaying TLC-generated behaviours and validating recorded traces"}],
         "checks": checks,
         "not_applicable": na,
         "notes": "See DESIGN.md. Genuine defects found: known_findings.json."}
    json.dump(m, open(os.path.join(HERE, "MANIFEST.json"), "w"), indent=1)

if __name__ == "__main__":
    main()
